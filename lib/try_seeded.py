#!/usr/bin/env python3
"""Regression over the seeded changes: apply each seeded/<id>/patch.diff to /repo, run the quick check of its property,
undo the change, and report whether the check printed a VIOLATION line (and whether it came with a failing input).

usage: lib/try_seeded.py [ids...]        (default: all of seeded/*)
Never leaves /repo modified: every patch is reverted with `git checkout -- .`, also on interruption."""
import json, os, subprocess, sys, time

ROOT = os.path.dirname(os.path.dirname(os.path.abspath(__file__)))
REPO = "/repo"


def clean():
    return subprocess.run(["git", "-C", REPO, "status", "--porcelain"], capture_output=True, text=True).stdout.strip() == ""


def main():
    ids = sys.argv[1:] or sorted(os.listdir(os.path.join(ROOT, "seeded")))
    if not clean():
        print("refusing to run: /repo has local changes")
        return 2
    rows = []
    for sid in ids:
        d = os.path.join(ROOT, "seeded", sid)
        patch = os.path.join(d, "patch.diff")
        if not os.path.exists(patch):
            continue
        meta = json.load(open(os.path.join(d, "meta.json")))
        if meta.get("obsolete"):
            print(f"{sid:6} skipped (obsolete: {meta['obsolete'][:80]}...)", flush=True)
            continue
        prop = meta.get("property", sid[:3])
        t0 = time.time()
        try:
            a = subprocess.run(["git", "-C", REPO, "apply", patch], capture_output=True, text=True)
            if a.returncode != 0:
                rows.append((sid, prop, "patch-does-not-apply", 0))
                continue
            r = subprocess.run([os.path.join(ROOT, "check"), prop], capture_output=True, text=True, cwd=ROOT, timeout=3000)
            lines = [ln for ln in r.stdout.splitlines() if ln.startswith("VIOLATION")]
            if not lines:
                verdict = "MISSED"
            elif lines[-1].rstrip().endswith("no-failing-input-found"):
                verdict = "reported (no-failing-input-found)"
            else:
                verdict = "reported with a failing input"
        except subprocess.TimeoutExpired:
            verdict = "timeout"
        finally:
            subprocess.run(["git", "-C", REPO, "checkout", "--", "."], capture_output=True)
        rows.append((sid, prop, verdict, int(time.time() - t0)))
        print(f"{sid:6} {prop:4} {verdict}  ({rows[-1][3]}s)", flush=True)
    missed = [r for r in rows if not r[2].startswith("reported")]
    print(f"{len(rows) - len(missed)}/{len(rows)} seeded changes reported; not reported: {[r[0] for r in missed]}")
    return 0 if clean() else 3


if __name__ == "__main__":
    sys.exit(main())
