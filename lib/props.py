"""Per-property configuration of ./check (counts, translators, trusted base, evidence wording)."""

ALLOWED_AXIOMS = set()   # every property theorem so far is closed under the global context

TRUSTED_BASE = [
    "Coq 8.16.1 kernel (coqc); vm_compute used inside proofs by reflexivity on finite tables; no native_compute; coqchk -o on all Props/*.vo "
    "accepted the development (coqchk_summary.txt: the only axioms in the loaded context are those of the Reals / classical libraries pulled in by "
    "nsatz - functional_extensionality_dep, classic, sig_not_dec, sig_forall_dec - and no property theorem depends on them: every Print Assumptions is closed)",
    "translators/rs2coq (Rust, syn 3.0.6): the meaning of 'what the source says' for coq/Gen/*.v",
    "extraction with ExtrOcamlBasic directives only (bool, option, unit, list, prod, sumbool, sumor -> OCaml natives); OCaml 4.13.1; ocaml/driver.ml (char <-> ascii glue)",
    "harness/ (Rust): generators, canonical printers, catch_unwind wrapper; the sexp exchange format",
    "Rust std, rayon, rstar, flate2, serde, indexmap: modelled from their documentation, exercised, not verified",
]

PROPS = {
    "C07": {
        "translators": ["t1"],
        "count": {"quick": 450, "thorough": 2400},
        "rule": "exhaustive over the 15 (ErrorLevel, StrictnessLevel) pairs through the public ErrorLevel::fails; generated "
                "structures written by the crate's own raw writers, one diagnostic trigger injected per text (see input_distribution), "
                "read at the three levels in both formats: gate law evaluated by the extracted Coq gate on the observed diagnostic "
                "levels, cross-level comparison of full snapshots; six validating save entry points x 3 levels x pre-existing/absent "
                "targets compared with the model's file map.  non-trivial = case whose diagnostic list is non-empty (or a table pair / "
                "a cross-level triple); distinct = distinct case line",
        "assumptions": [
            "File::create succeeds in the scratch directory (the create-fails branch of the model is proved, not exercised)",
            "reader diagnostics are observed, not predicted: C07_accept_monotone is proved for every reader whose diagnostic set shrinks towards looser levels; that the two readers have this shape is checked on the explored inputs only",
        ],
    },
    "C08": {
        "translators": [],
        "count": {"quick": 300, "thorough": 3000},
        "rule": "histories of add_atom calls: exhaustive over the identifier alphabet chain in {' A','A','a'}, number in {1,-1}, insertion code in "
                "{None,'a','A'}, name in {'ala','ALA '}, alternate location in {None,'a','A',' '} (Residue entry: all histories up to length 3 (4 thorough); "
                "Chain entry: up to length 2 (3 over one name, thorough); Model entry: length 2 over an 18-letter sub-alphabet (full 144-letter "
                "alphabet, thorough)); random histories of length 1..200 over a larger alphabet (padded, multi-character, tab-padded identifiers); "
                "invalid-identifier histories (documented panic).  Observed: the full nested snapshot after the last call, or `panic`.  "
                "non-trivial = history with at least two calls; distinct = distinct history",
        "assumptions": ["identifiers are ASCII (the model's trim is the ASCII fragment of str::trim; non-ASCII white space is not generated)",
                        "snapshots are taken after the last call of each history; every prefix of the exhaustive histories is itself an explored history"],
    },
    "C11": {
        "translators": [],
        "count": {"quick": 60, "thorough": 600},
        "rule": "random structures of arbitrary shape (0..3 or 0..6 children per level, possibly empty containers, duplicate and unordered identifiers, "
                "random serial numbers): full_sort and par_full_sort snapshots, renumber and renumber twice, compared with the model; renumbered "
                "structures without empty containers (sorted first in half of the cases): binary_find_atom and binary_find_atom_mut for serials "
                "0..n+2 x alternate locations {None,A,B,C,Z} compared with the model's linear scan (property) and with the model's binary search "
                "(correspondence); three add_bond calls and the resulting bonds(); number_to_base26 on 72 values.  non-trivial = structure with at "
                "least two atoms / query that is present; distinct = distinct case line",
        "assumptions": ["slice::sort and rayon par_sort are stable sorts (their documented contract); the model uses an insertion sort and the "
                        "theorem C11_stable_sort_determined shows any sorted, stable rearrangement is the same list",
                        "binary_find = linear_find is proved for every structure whose serial numbers increase strictly in traversal order and that has "
                        "no empty container (C11_binary_find_is_linear_find), and renumber is proved to produce such numbers (C11_binary_find_on_renumbered); "
                        "renumber idempotence and the base-26 letters are checked on the explored structures"],
    },
    "C12": {
        "translators": ["t2b"],
        "count": {"quick": 150, "thorough": 1500},
        "rule": "exhaustive: every expression tree of depth <= 2 (with an outer negation, depth 3) over a 10-term alphabet (model, chain, residue range, "
                "insertion code, alternate location, serial range, element, backbone, side chain, hetero) on one fixed structure, at the PDB and Residue "
                "levels (all five levels in the thorough tier, where the binary layer is the full 20 x 20 square); random: random structures (atoms with and "
                "without element, duplicate ids, empty containers) x random trees to depth 7 over all 22 term kinds x a random level and element.  For each "
                "case find and find_mut are compared with the declarative Kleene filter (property) and find with the model's pruned pipeline "
                "(correspondence).  non-trivial = non-empty result; distinct = distinct case line",
        "assumptions": ["float terms use values on a 1/16 grid, where a - b is exact, so |a-b| < EPSILON is decided on exact values",
                        "amino-acid and backbone name tables are taken from the regenerated Gen/NameTables.v (reference data, not part of the property)"],
    },
    "C10": {
        "translators": [],
        "count": {"quick": 1500, "thorough": 15000},
        "rule": "random histories (1..5 operations, every tenth 1..30 (60 thorough)) over 70 operation forms of the six types: removal by predicate "
                "(indexed predicate family) at every level, by index (in and out of range), by identifier / serial / name (sequential and parallel twins), "
                "remove_empty (+par), remove_models_except / remove_all_models_except_first, join and extend at every level, add / insert, every setter "
                "with valid and invalid values (NaN, infinities, negative, control characters, empty and blank text); the returned value and the full "
                "snapshot (all atom fields) after every step are compared with the model.  non-trivial: every history; distinct = distinct case line; "
                "per-operation counts in input_distribution",
        "assumptions": ["an out-of-range index panics before the vector is touched (Vec::remove / insert assert first): the model returns Panic with the state unchanged and the history continues",
                        "the theorems characterise each mutator for every structure; that the Rust methods are these functions is sampled"],
    },
    "C09": {
        "translators": ["t3"],
        "entries": ["C09", "C09gen"],
        "count": {"quick": 40, "thorough": 400},
        "rule": "random structures of arbitrary shape (empty models / chains / residues / conformers allowed in two thirds of the cases, ragged, duplicate ids): "
                "the canonical walk (all counts, every flat iterator, atoms-with-hierarchy tuples, at the PDB level and for every model, chain, residue and "
                "conformer) computed through four views of the implementation - sequential iterators, .rev() reversed, n-th accessors until None, and the "
                "*_mut iterators / atoms_with_hierarchy_mut - and compared with the walk computed by the accessors translated from the source; the parallel "
                "twins (counts, par_* iterators) and par_*_mut marking under thread pools of 1,2,3,4,8,16 threads x 2 repeats (1..16 x 5 thorough); "
                "sequential *_mut and hierarchy-mut marking (each element bumped exactly once); index accessors at len, len+1, 0.  "
                "non-trivial = structure with at least two atoms; distinct = distinct case line",
        "assumptions": ["rayon: collect() of a parallel iterator preserves order; for_each on par_iter_mut visits each element once (its documented contract) - exercised under the listed pools, not proved",
                        "the raw-pointer hierarchy tuples of the *_mut variants are read through their public accessors only; aliasing/memory safety is outside an executable Gallina model"],
    },
    "C18": {
        "translators": ["t4"],
        "entries": ["C18", "C18gen"],
        "count": {"quick": 300, "thorough": 3000},
        "rule": "every validated field (15: model serial, chain id, residue number, insertion code, conformer name, alternate location, modification, "
                "atom name, atom serial, charge, occupancy, B factor, x, y, z) at its maximum, one step above, at its minimum, one step below (next "
                "representable double for the float columns) and inside; 1..3 models with equal shapes and one single-field difference in the second model "
                "(serial, name, element, charge, tensor presence, position only, hetero flag, atom count), different shapes, empty structure, containers "
                "without atoms.  validate and validate_pdb diagnostics (level, short description) as sorted multisets compared with the model over the "
                "documented column ranges (property) and with the model over the regenerated rule table (translator).  non-trivial: every case",
        "assumptions": ["the binary64 value of each documented decimal bound is supplied by the harness (Rust's parse of the same text)",
                        "diagnostics are compared as multisets of (level, short description); long descriptions are not compared"],
    },
    "C17": {
        "translators": ["t2a"],
        "profiles": ["release", "checked"],
        "exhaustive": True,
        "count": {"quick": 1, "thorough": 1},
        "rule": "exhaustive: Symmetry::from_index for 0..=231; for each of the 230 groups the Hermann-Mauguin and Hall symbols, Z and the operator list "
                "(rotation entries, translations in twelfths) compared with the regenerated tables, transformations_absolute against the scaled fractional "
                "operators, Symmetry::new on three spellings (exact, padded with blanks, tab) of both symbols, the CRYST1 round trip (save_pdb_raw, read "
                "back) and the mmCIF round trip (save_mmcif_raw, read back); five unknown symbols.  Run in the release profile and in a profile with "
                "overflow checks (the crate's dev profile).  non-trivial: every case; distinct = distinct case line",
        "assumptions": ["translations are accepted as multiples of 1/12 when within 12*2^-50 of one (the table stores 1/3, 1/6 as rounded doubles)"],
    },
    "C13": {
        "translators": [],
        "count": {"quick": 200, "thorough": 2000},
        "rule": "matrices with entries on a 1/4 (chains: 1/2) grid and points on a 1/8 grid, where every product and sum is exact in binary64, so apply, "
                "combine and chains of 1..3 (4 thorough) factors (combined-then-applied and applied one after the other) are compared bit for bit with the "
                "exact rational model; constructors identity / translation / magnify / scale; rotation_x/y/z for special and random angles: exact shape of "
                "the matrix and c^2+s^2 = 1 within 2^-50, and apply within the forward error bound 4u(sum|m||p|+|t|) of the exact value (also for general "
                "random matrices); apply_transformation and par_apply_transformation at the six levels on random structures with grid positions under "
                "pools of 1,4,16 (1,2,3,4,8,16 thorough) threads, full snapshots compared (frame: everything but the positions of the addressed atoms).  "
                "non-trivial: every case except one-factor chains; distinct = distinct case line",
        "assumptions": ["the forward error bound of the fused multiply-add evaluation is stated, not proved (a Flocq development would be needed); it is only used for non-grid inputs",
                        "sin/cos come from libm; the theorem needs c^2+s^2=1, the check measures it within 2^-50"],
    },
    "C14": {
        "translators": ["t2c"],
        "count": {"quick": 120, "thorough": 1200},
        "rule": "random structures (ragged, sometimes with empty containers) with coordinates on a 1/8 grid (compact or spread clouds, one atom in eight "
                "coincident with its predecessor), so that squared distances are exact: bounding box; chains_in_contact with cut-offs k/8+1/16 (never equal to "
                "an attainable distance), maps compared after sorting; atom tree and hierarchy tree: contain every atom exactly once (identity by address), "
                "three radius queries each with r^2 = j/64+1/128 compared with the brute-force scan, ancestors of every returned tuple compared with the "
                "nested traversal, nearest-neighbour iteration compared with the sorted squared distances; Atom::distance both ways checked to be the "
                "correctly rounded square root of the exact sum of squares; overlaps / overlaps_bound against the regenerated radii table; "
                "distance_wrapping and overlaps_bound_wrapping for atom pairs inside random orthogonal cells against the minimum over the 27 images.  "
                "non-trivial = non-empty result / structure with at least two atoms; distinct = distinct case line",
        "assumptions": ["rstar's contract (bulk_load keeps every object, locate_within_distance = filter by distance_2 <= r^2, nearest_neighbor_iter sorted by distance_2) is a hypothesis of C14_rtree_brute_force and exercised here, not proved",
                        "sqrt is correctly rounded (IEEE 754), fused multiply-add exact on grid inputs"],
    },
    "C16": {
        "translators": [],
        "count": {"quick": 90, "thorough": 900},
        "rule": "structures with bonds obtained three ways - PDB text with SSBOND records read by the crate, renumbered random structures with add_bond, "
                "squeezed structures with connect_atoms - and for each: clone, clone followed by an edit, serde_json value round trip, and (for text) a "
                "second read; observed: == in both directions, equality of the full snapshot and metadata, bonds() of both sides (panic recorded), "
                "diagnostics of the two reads as sorted lists; the clone's internal identities and bond table (through serde_json, the only public view) "
                "compared with the model's clone; after a serde copy all live identities must be distinct; 1,2,4,8,16 (1..16 thorough) threads each "
                "creating and cloning 200 atoms, all 400 x threads identities pairwise distinct.  non-trivial = structure with at least one bond; "
                "distinct = distinct case line",
        "assumptions": ["fetch_add(SeqCst) on the shared counter is atomic: the schedule theorem quantifies over every interleaving of atomic steps; real memory ordering is exercised under 1..16 threads, not modelled",
                        "serde_json as the view of the identities"],
    },
    "C01": {
        "translators": ["t2a", "t2b", "t2c", "t6"],
        "count": {"quick": 150, "thorough": 1500},
        "rule": "grammar-directed record lists (0..3 MODEL blocks, 1..4 chain runs with returning and blank chain ids and TER, negative / inserted / "
                "wrapping residue numbers, lower-case names, insertion codes and alternate locations, none / partial / full alternate locations, hetero "
                "atoms, charges, present and absent element columns, ANISOU, atom serials wrapping past 99999, optional HEADER / REMARK / CRYST1 / ORIGX / "
                "SCALE / MTRIX; in files without wrapped numbers and blank chain ids DBREF / SEQADV / MODRES records about the chains and residues of the "
                "first model, names and insertion codes in the case of the coordinate records, in upper or in lower case) rendered with arbitrary justification inside every field, read at the three levels: the whole result (metadata, hierarchy, "
                "all atom fields, database references, bonds, diagnostics with level / short description / line) compared with the reader model, and the "
                "structure and metadata compared with the record-level specification; three single-field corruptions (blank, garbage, truncation of serial, "
                "residue number, x, y, z, occupancy, B factor) per text at two levels: never accepted.  non-trivial = text with at least two atoms; "
                "distinct = distinct case line",
        "assumptions": ["input is ASCII (bytes = characters); SEQRES / SSBOND are covered by the reader-model correspondence in C05's malformed stream and by the C03 round trip, not by the record specification",
                        "DBREF / SEQADV / MODRES annotate the first model that has the named chain (adopted: the models of a file describe one molecule, the readers annotate the first); one DBREF record per chain, SEQADV records after the DBREF records, MODRES records for residues without alternate locations (which of several conformers of one name is the modified one is not fixed by the property), no annotation of chains with blank identifiers or wrapped residue numbers",
                        
                        "a residue key that comes back later in the chain always carries the same residue name: a residue holding conformers of several names together with blank alternate locations is not generated (which blank conformer is shared out is not fixed by the property; the specification shares out a single one)",
                        "a truncated atom line keeps at least 7 characters (a bare 'ATOM  ' is not a record for the reader and is skipped without a diagnostic)",
                        "the whole-file refinement theorem read_pdb (render recs) = denote recs is not proved (proved: field and line read-back, the grouping and the simulation of the specification walk on runs of coordinate and TER records; proved since: MODEL / ENDMDL boundaries, HEADER / REMARK / CRYST1 records and the MODRES pass; not proved: the matrix records, the other passes after the loop, the lexing of whole lines of every record type); the two are compared on every generated text"],
    },
    "C02": {
        "translators": ["t2a", "t2b", "t2c"],
        "count": {"quick": 60, "thorough": 600},
        "rule": "documents from a grammar-directed writer: 1-3 models (equal or different), 1-3 chains, residues with insertion codes, alternate "
                "locations (blank + labelled), hetero groups with '.' label_seq_id, optional atom_site columns present or absent in every "
                "combination, optional cell / symmetry (number, H-M or Hall name, or both) / scale / origx / NCS operators (partial matrices); each "
                "document rendered in 4 layouts (bare words only; any spelling: bare, single / double quoted with padding, text field; twice with "
                "foreign single items, loops, text fields and save frames between the groups, foreign atom_site columns, random column order, "
                "random white space, comments, CRLF, upper-case reserved words); numbers in sign / decimal / exponent forms.  Observed: the full "
                "outcome (compared with the reader model), acceptance at the loose level, and the structure and metadata (compared with the "
                "document specification).  4 single-token corruptions per document (non-numeric token in a numeric column, '.' / '?' for a "
                "mandatory value) read at loose and strict: never accepted.  Known-finding streams: numeric-looking identifiers written bare "
                "in a non-canonical form, a quote inside a quoted string, residue number stated by neither column.  non-trivial = document with "
                "more than one atom row; distinct = distinct case line",
        "assumptions": ["input is ASCII; a bare word never starts with '.' or '?' (the lexer splits such a word; not generated)",
                        "insertion codes and alternate locations that differ only in case are not generated for one residue",
                        "NCS operator ids are distinct and the items of one operator are contiguous (the reader attaches matrix items to the last id seen)",
                        "numbers with a standard uncertainty, and quoted numbers, are not generated for numeric columns",
                        "atom serial numbers are not stated by an mmCIF row; the specification numbers the atoms of a model from 0 in row order, as the reader does"],
    },
    "C03": {
        "entries": ["C03", "C18"],
        "translators": ["t2a", "t2b", "t2c"],
        "count": {"quick": 60, "thorough": 600},
        "rule": "structures built through the public API (1-3 models of the same shape, chains, residues with insertion codes and negative "
                "numbers, 0-3 labelled alternate locations, hetero atoms, atoms with and without a known element, charges -9..9, symmetric "
                "anisotropic tensors, residue and atom names with leading zeros, modifications); every number inside its column range with an "
                "arbitrary digit tail, at the column limits, and on rounding boundaries; identifier of 1-4 characters, remarks, unit cell, a space "
                "group whose symbol fits CRYST1, scale, origx, 0-2 NCS operators, database references with sequence differences (DBREF and the "
                "DBREF1/2 form) on every third structure.  Only structures on which validate_pdb reports nothing are used.  Written at the three "
                "levels, read back (loose writer: loose and strict reader; otherwise the same level).  Observed: the bytes written (compared with "
                "the writer model), an independent fixed-column reading of the file against the structure, the outcome of the re-read (compared "
                "with the reader model when the file has no SEQRES), acceptance, the round-trip verdict of the specification on (original, re-read) "
                "and byte equality of a second write.  Structures numbered straight through 99999 atoms / 9999 residues at the loose level (short "
                "ones that start just below the limits; one of 200010 atoms in the thorough tier).  non-trivial = more than one atom; distinct = distinct case line",
        "assumptions": ["structures are in the reader's normal form (no empty container, identifiers unique among siblings, no residue mixing an unlabelled conformer with labelled ones) and models correspond",
                        "atom ids are not stored in the PDB format and bonds are not written: not compared; anisotropic tensors are symmetric",
                        "at the strict writer level ORIGX (identity) and SCALE (from the unit cell) are written even when absent: the re-read structure may carry them",
                        "space groups whose Hermann-Mauguin symbol is longer than 10 characters are the C17 finding and are not generated here",
                        "modifications sit on residues with a single conformer of the first model (a MODRES record names a residue of the file, not a conformer or a model); an atom without a known element is not renamed after its creation (its element would be read out of the new name)",
                        "every round trip whose file carries SEQRES records (strict writer level, or a database reference) falls under the recorded SEQRES finding when it fails",
                        "the converse clause (every structure whose values fit the documented column ranges passes validation) is decided by C18 (validate_pdb against the documented ranges)"],
    },
    "C04": {
        "translators": ["t5", "t2a", "t2b", "t2c"],
        "count": {"quick": 80, "thorough": 800},
        "rule": "structures built through the public API (Model::add_atom in nested order: 1-3 models of the same shape, 1-3 chains, residues "
                "with insertion codes and negative numbers, 0-3 labelled alternate locations, hetero atoms, atoms with and without a known element, "
                "charges, string atom ids, anisotropic tensors on every second structure); every atom number replaced by a finite value of "
                "realistic magnitude with an arbitrary digit tail (integers, values exactly on a half of the fifth decimal, 1e-7-sized values, "
                "negative values that round to zero); identifier, unit cell, one of the 230 space groups, scale, origx and 0-2 NCS operators present "
                "or absent independently.  Written with save_mmcif_raw, read back at the three levels.  Observed: the bytes written (compared with "
                "the writer model), the outcome of the re-read (compared with the reader model), acceptance, the round-trip verdict of the "
                "specification on (original, re-read), and byte equality of a second write.  non-trivial = structure with more than one atom; "
                "distinct = distinct case line",
        "assumptions": ["structures are in the reader's normal form: no empty container, identifiers unique among siblings, distinct model numbers, "
                        "no residue that mixes an unlabelled conformer with labelled ones (the reader redistributes those), identifier present, unit cell not the all-default cell",
                        "identifiers are bare-word safe and not numeric in a non-canonical spelling (see the C02 finding)",
                        "atom serial numbers, conformer modifications, remarks, database references and bonds are not written to mmCIF and are not compared",
                        "magnitudes below 2^63 / 10^5 (print_float goes through isize)"],
    },
    "C15": {
        "translators": ["t2a", "t2b", "t2c"],
        "count": {"quick": 40, "thorough": 400},
        "rule": "PDB: record lists from the C01 generator (metadata, 0-3 models, hydrogens by element column in either case or by name with a blank column, mercury and holmium beside them, and "
                "forced on the first atom of every second file, blank chain ids, serial wrap) rendered with arbitrary justification; mmCIF: "
                "documents from the C02 generator (hydrogen rows, spelled H, h or recognisable by the name only, forced on the first row of every model in every second document) in arbitrary "
                "layouts; each text read under all 2^3 option sets at the loose level: the full outcome compared with the reader model, the "
                "structure and metadata compared with the specification applied to the filtered records / rows (hydrogens removed, first model, "
                "no metadata).  54 file-name shapes (upper / lower / mixed case extensions, pdb1, mmcif, .gz, multiple dots, no extension, hidden "
                "files, dots in directories, trailing dot or blank, non-ASCII): for open, the file is filled in turn with PDB text, mmCIF text and "
                "their gzip forms and the (format, compression) for which read(path) equals reading the bytes directly is compared with the name "
                "model; a missing file must be an error; for save and save_gz the written (decompressed) content is compared with the raw "
                "writers.  non-trivial = option set other than 0 / every name; distinct = distinct case line",
        "assumptions": ["paths are '/'-separated, without a trailing separator and without '.' / '..' components",
                        "a hydrogen is an ATOM / HETATM record (an atom_site row) whose atom gets hydrogen as its element by the rule of Atom::new: the element text in either case, else the whole atom name, else the name's first letter when that is one of C H N O S (the readers compared the raw text with H until fix dff6518)",
                        "metadata records precede the coordinates (only_first_model stops reading at the second MODEL record) and the rows of one mmCIF model are contiguous",
                        "the two records between which an atom serial number wraps (99999 and 0) are not hydrogens: without one of them the rest of the text has two atoms of one serial number in a model and its ANISOU records cannot tell them apart (the text with the hydrogen records deleted is then not well-formed)",
                        "the PDB theorem excludes hydrogen lines that also carry a lexing diagnostic (their diagnostic is reported even though the atom is discarded)"],
    },
    "C06": {
        "translators": ["t7", "t2a", "t2b", "t2c"],
        "profiles": ["release", "checked"],
        "count": {"quick": 300, "thorough": 3000},
        "rule": "every second prefix (every prefix in the thorough tier) of a hand-written mmCIF file that uses every construct of the grammar and every "
                "category the reader recognises; every single-token replacement by one random member (all members, thorough) of each token class "
                "(reserved words, quotes, semicolons, '.', '?', huge numbers, non-ASCII words, others) and every token deletion; about 900 "
                "structural faults (loop without header, header without values, ragged loop, unterminated quote / text field / save frame, missing "
                "mandatory column, every mandatory value replaced by '.', '?', text, uncertainty, huge; every metadata item with 19 kinds of value) "
                "at every level; multi-fault mutations; sampled prefixes and token replacements of the repository's 1ubq.cif; invalid UTF-8; random "
                "read options (2^3) and levels; each read on its own thread with a 20 s limit, in the release profile and in a profile with overflow "
                "checks.  Observed: classified (Ok or Err; no panic, no time-out), every diagnostic renders (Display and Debug); on ASCII input the "
                "whole outcome is also compared with the reader model.  non-trivial: every case; distinct = distinct case line",
        "assumptions": ["termination of the compiled code is observed (each call returns within the limit); it is proved for the lexer model",
                        "non-ASCII input is explored on the implementation only (the reader model is byte = character)",
                        "the position bookkeeping (line, column) of the lexer and the contexts of diagnostics are not modelled; diagnostics are compared as (level, short description)"],
    },
    "C05": {
        "translators": ["t7", "t2a", "t2b", "t2c"],
        "profiles": ["release", "checked"],
        "count": {"quick": 300, "thorough": 3000},
        "rule": "every prefix and every single-column substitution (3 random out of 14 replacement strings: blank, digits, letters, sign, point, 2/3/4-byte "
                "UTF-8, control, invalid UTF-8, tab; all 14 in the thorough tier), insertion and deletion of a canonical line of each of the 28 supported "
                "record shapes, alone and appended to a well-formed file; multi-fault mutations (drop / duplicate / swap / truncate / splice / extend lines, "
                "CRLF) of a well-formed file; hand-picked edge inputs; random read options (2^3) and levels; in the release profile and in a profile with "
                "overflow checks.  Observed: classified (Ok or Err, no panic), every diagnostic renders, every line-anchored context quotes the line at its "
                "number; on ASCII input without SEQRES the whole outcome is also compared with the reader model.  non-trivial: every case; distinct = distinct case line",
        "assumptions": ["termination of the implementation is observed (each call returns), not proved for the compiled code",
                        "the second context of the 'SEQRES inconsistent residues' diagnostic is a generated line (residues found) and is not treated as a quotation",
                        "non-ASCII input is explored on the implementation only (the reader model is byte = character)"],
    },
}
