#!/usr/bin/env python3
"""Runs /repo's test-suite offline and checks that every test in BASELINE.json's stable_pass still passes."""
import json, re, subprocess, sys
base = json.load(open("/root/.vp/BASELINE.json"))
want = set(base["stable_pass"])
p = subprocess.run("cd /repo && cargo test --workspace --no-fail-fast --offline 2>&1", shell=True, stdout=subprocess.PIPE, text=True)
passed = set()
crate = None
for line in p.stdout.splitlines():
    m = re.match(r"\s+Running (?:unittests )?(\S+)", line)
    if m:
        f = m.group(1)
        crate = "pdbtbx" if f.startswith("src/") else "pdbtbx::" + f.split("/")[-1].replace(".rs", "")
    m = re.match(r"test (\S+) \.\.\. ok", line)
    if m and crate:
        passed.add(f"{crate}::{m.group(1)}" if crate != "pdbtbx" else f"pdbtbx::{m.group(1)}")
missing = sorted(want - passed)
print(f"baseline: {len(want & passed)}/{len(want)} stable tests pass")
for m in missing:
    print("  NOT PASSING:", m)
sys.exit(1 if missing else 0)
