"""Source of MANIFEST.json (run lib/mkmanifest.py after editing)."""

NOTES = ("All checks share one driver (./check). A check regenerates coq/Gen from /repo, recompiles the property's theorem "
         "file (Print Assumptions under every theorem), rebuilds the harness against /repo's working tree, runs the "
         "implementation and the extracted model on the same cases and compares. See DESIGN.md.")

PENDING = "machinery for this property is not built yet in this round (work in progress, see DESIGN.md section 11); not a claim that the technique cannot apply"

CHECKS = {
    "C07": {
        "text": "The failure table is regenerated from ErrorLevel::fails on every run and proved equal to the documented table for all 15 pairs; "
                "gate laws (rejection list non-empty and containing a failing diagnostic, acceptance only with non-failing ones), monotone "
                "acceptance for every reader whose diagnostics shrink towards looser levels, and 'a refused save leaves the file map unchanged' "
                "are Coq theorems over that regenerated table. The readers' and save wrappers' use of the gate is tied by correspondence "
                "(observed diagnostics fed to the extracted gate; file-system state compared with the model's file map).",
        "design_ref": "DESIGN.md section 6 C07",
        "note": "Trusted: Coq kernel, the T1 translator, extraction (ExtrOcamlBasic), the harness. Reader diagnostics are observed rather than "
                "predicted by a reader model; File::create failure is proved in the model but not exercised; gzip via flate2 is exercised only.",
        "technique": "Coq proof over a translator-regenerated table + differential correspondence",
    },
    "C08": {
        "text": "Theorems for all finite histories (induction, no length bound): any history of valid add_atom calls at the Model, Chain or Residue entry "
                "point yields exactly the nested first-appearance partition of the normalised operations (C08_model_history etc.); the partition has one "
                "child per distinct key, contains every key used, appends a child exactly when the key is new and never reorders (C08_first_insertion_order), "
                "and each child holds the atoms added under its key in insertion order; stored identifiers are fixed points of the normalisation. "
                "The hand-written model of the three add_atom functions is tied to the crate by exhaustive short and random long histories whose full "
                "snapshots are compared.",
        "design_ref": "DESIGN.md section 6 C08",
        "note": "Trusted: Coq kernel, extraction, harness. The Gallina model of add_atom (search order, normalisation, panics) is hand-written and tied "
                "by sampling only; identifiers are ASCII; Vec/str std behaviour is modelled.",
        "technique": "Coq proof (induction over call histories, refinement to a first-appearance partition) + differential correspondence",
    },
    "C11": {
        "text": "Theorems: each level's sort is sorted + permutation + stable for the level's Ord (proved for a stable insertion sort over comparisons "
                "shown to be total preorders: byte-wise string order, Option with None first, lexicographic pairs) and those three facts determine the "
                "output (any stable sort gives the same list); sorting is idempotent; the std binary_search_by loop returns the unique Equal element for "
                "every monotone comparator (unbounded length). The four nested binary look-ups, renumber and base-26 letters are executable Gallina "
                "mirrors tied by correspondence; the nested binary look-up (conformer, residue, chain, model, PDB level) is proved equal to the linear scan "
                "for every structure whose atom serial numbers increase strictly in traversal order and that has no empty container, every serial "
                "number and alternate location (Proofs/C11find.v); the equality is also evaluated on every explored query.",
        "design_ref": "DESIGN.md section 6 C11",
        "note": "Trusted: Coq kernel, extraction, harness; std sort stability and binary_search_by's loop as modelled. renumber is proved to hand out "
                "the serial numbers 1, 2, 3, ... in traversal order, hence binary_find = linear_find on every renumbered structure without empty "
                "containers; renumber idempotence is checked by correspondence, not proved.",
        "technique": "Coq proof (stable-sort characterisation, binary-search loop invariant, nested binary look-up = linear scan) + differential correspondence",
    },
    "C12": {
        "text": "Theorems for every expression tree (unbounded depth) and every structure: at each of the five levels find equals the filter of the "
                "level's atoms-with-hierarchy, in traversal order, by 'the strong-Kleene value of the expression under the declarative term semantics on "
                "the atom and its ancestors is not false' (C12_pdb_find ... C12_conformer_find); proved from a generic theorem about staged partial "
                "evaluation with constant folding and subtree pruning (Base/Kleene.v: staged_kleene, parent_ok). Term evaluation per level and the five "
                "pipelines are hand-written mirrors tied by correspondence; find_mut is compared with the same specification.",
        "design_ref": "DESIGN.md section 6 C12",
        "note": "Trusted: Coq kernel, extraction, harness, T2b (name tables). Ancestors = the levels present in the tuple the find returns "
                "(a find started on a chain knows nothing about the model). Float terms are exercised on grid values only.",
        "technique": "Coq proof (induction over expression trees and hierarchy lists; refinement of a pruned pipeline to a Kleene filter) + differential correspondence",
    },
    "C10": {
        "text": "Each mutator is a total Gallina function mirroring one Rust method; theorems for every structure (hence any interleaving): removal by "
                "predicate = filter of the flat traversal with the containers above untouched; removal / insertion by index = exactly that position or "
                "refusal; by-identifier removal removes only the first match and reports existence; remove_empty leaves no empty container, loses no atom; "
                "remove_models_except refuses exactly on empty structure / empty or out-of-range index list and otherwise keeps exactly the selected models "
                "in order; joins append; atom setters leave a rejected atom untouched and never store a non-finite or invalid value. Tied to the crate by "
                "random operation histories compared after every step (returned value and full snapshot).",
        "design_ref": "DESIGN.md section 6 C10",
        "note": "Trusted: Coq kernel, extraction, harness. The mirror of each Rust method is hand-written (sampled); Vec semantics (retain, remove, "
                "insert, extend, drain) as documented; rayon position_first returns the least index.",
        "technique": "Coq proof (frame + effect theorems per mutator, for all structures) + differential correspondence on operation histories",
    },
    "C09": {
        "text": "Every read-only accessor of PDB / Model / Chain / Residue / Conformer (81 methods incl. the parallel twins) is translated from the current "
                "Rust source into Gallina on every run (T3) and proved equal to its nested-traversal specification for every structure (84 theorems: counts = "
                "length of the traversal, plain PDB counts = first model, totals = all models, flat iterators = nested flat_map, n-th accessors = nth_error, "
                "atoms-with-hierarchy = nested tuples whose ancestors contain the atom). A wrong delegate in any one-liner breaks its theorem with no "
                "sampling involved. Mutable, reversed, indexed and parallel variants (which the translator does not cover) are tied by correspondence under "
                "thread pools 1..16.",
        "design_ref": "DESIGN.md section 6 C09",
        "note": "Trusted: Coq kernel, the T3 translator (fragment-checked, fails closed), extraction, harness; rayon's contract; the raw-pointer tuples' "
                "memory safety is not modelled.",
        "technique": "Coq proof over translator-regenerated accessor definitions + differential correspondence (mutable / parallel variants)",
    },
    "C18": {
        "text": "The range checks of validate_pdb are regenerated from the source on every run (T4) and proved, by computation on the regenerated "
                "table, to be exactly the documented PDB column ranges: every validated field once, upper side and - where the column holds a sign - "
                "lower side (C18_thresholds_are_column_ranges). Theorems for every structure: one diagnostic per out-of-range value and none otherwise; "
                "'No Atoms' exactly when there is no atom; model-size diagnostics exactly for later models whose (all, then non-hetero) atom count differs; "
                "correspondence diagnostics exactly at positions whose atoms differ in serial, name, element, charge or tensor presence. validate / "
                "validate_models are hand-written mirrors tied by correspondence at, inside and outside every bound.",
        "design_ref": "DESIGN.md section 6 C18",
        "note": "Trusted: Coq kernel, T4 translator (fails closed on any statement outside its fragment), extraction, harness. The binary64 value of each "
                "decimal bound is taken from Rust's parser; diagnostics compared as multisets of (level, short description).",
        "technique": "Coq proof over a translator-regenerated rule table + differential correspondence at the boundaries",
    },
    "C17": {
        "text": "The three reference tables are regenerated from the source files on every run (T2a) and every clause of the property is a finite, exhaustive "
                "computation over the indices 1..230 inside Coq, lifted to a universally quantified theorem with the bound in the statement: table sizes, "
                "distinct symbols, index / Hermann-Mauguin / Hall agreement through the model of Symmetry::new, Z = number of operators with the identity "
                "first, pairwise distinct operators, integer rotations of determinant +-1, translations multiples of 1/12, closure under composition modulo "
                "the lattice, the neighbours 0 and 231, the mmCIF round trip for all groups and the CRYST1 round trip for all groups whose symbol fits its "
                "eleven columns (the 10 others are proved to fail: known finding). Exhaustive correspondence on the crate in two build profiles.",
        "design_ref": "DESIGN.md section 6 C17",
        "note": "Trusted: Coq kernel (vm_compute), T2a translator, extraction, harness. The CRYST1 field layout (' ' + {:11}{:4}, columns 55..66) is "
                "hand-modelled and tied by the exhaustive round trip on the crate.",
        "technique": "Coq proof by exhaustive computation over translator-regenerated tables (forallb lifted by forallb_forall) + exhaustive correspondence",
    },
    "C13": {
        "text": "Theorems over the rationals for all matrices, points and factors (ring / nsatz): identity, apply(combine a b) = apply b . apply a, "
                "associativity on points, translation shifts, magnify scales squared distances by f^2, rot_x/y/z preserve distances and dot products "
                "whenever c^2+s^2=1, level-wise application is a map (independent of how the atom list is split). The Rust expressions (fused multiply-adds) "
                "are tied to the exact model bit for bit on inputs where binary64 arithmetic is exact, and within a stated forward error bound elsewhere; "
                "structure-level apply at six levels, sequential and parallel, compared by full snapshot.",
        "design_ref": "DESIGN.md section 6 C13",
        "note": "Trusted: Coq kernel, extraction, harness; libm sin/cos; the rounding error bound of the implementation is stated, not proved; rayon's contract.",
        "technique": "Coq proof (ring identities, nsatz for the rotation isometries over Q) + differential correspondence on exactly representable inputs",
    },
    "C14": {
        "text": "Theorems over exact rationals: squared distance symmetric, non-negative, zero on the diagonal; the wrapped squared distance of two atoms "
                "inside an orthogonal cell is below every one of the 27 image distances and equal to one of them (per-axis case analysis, linear arithmetic); "
                "the bounding-box fold returns bounds that contain every coordinate and are attained; chains_in_contact is exactly 'differently named chains "
                "with an atom pair closer than the cut-off' and symmetric, empty for every cut-off that is not positive, and for a positive one the comparison "
                "of squares is the comparison of distances; the tree queries equal the brute-force scan under rstar's stated contract. "
                "The Rust functions are tied to the model on grid coordinates where binary64 arithmetic is exact, radii from the regenerated element table.",
        "design_ref": "DESIGN.md section 6 C14",
        "note": "Trusted: Coq kernel, T2c, extraction, harness; rstar internals (contract as section hypotheses); IEEE sqrt; distances on query "
                "boundaries are not generated.",
        "technique": "Coq proof (linear/nonlinear arithmetic over Q, list folds) + differential correspondence on exactly representable coordinates",
    },
    "C16": {
        "text": "Theorems: for every interleaving of atom creations and clonings across any number of threads the identities issued by the shared "
                "counter are pairwise distinct, consecutive from the start value, and every request is served (induction over the schedule); for every "
                "well-formed structure (distinct identities, bonds between present atoms) and every start of fresh identities the clone with translated "
                "bond table has the same number of atoms and the same bonded positions, stays well-formed, and no bond is lost; after removals the listed "
                "bonds are those whose atoms remain. The derived Clone of the shipped code is refuted by a two-atom witness (repaired by a fix: commit). "
                "Correspondence: clone / serde / second read on structures with bonds from SSBOND, add_bond and connect_atoms, internal identities read "
                "through serde_json, 1..16 threads.",
        "design_ref": "DESIGN.md section 6 C16",
        "note": "Trusted: Coq kernel, extraction, harness; atomicity of fetch_add(SeqCst) (real memory ordering is exercised, not modelled); serde_json. "
                "Open known finding: a serde copy re-uses the identities of the original.",
        "technique": "Coq proof (induction over schedules; clone refinement on the identity skeleton) + differential correspondence incl. threads",
    },
    "C01": {
        "text": "A record-level specification in Coq (Spec/PdbSpec.v: what MODEL / ATOM / HETATM / ANISOU / TER / HEADER / REMARK / CRYST1 / SCALE / ORIGX / "
                "MTRIX records state: first-appearance partition into chains, residues, conformers via the proved grouping theory, binary64 value of the "
                "decimal text, element inference, tensors, serial wrap, occupancy split) and a faithful Gallina model of the whole reader (lexer of every "
                "record type, record loop, post passes, gate). Proved: one chain per id in first-appearance order for every record list, the occupancy "
                "split adds up, wrapped serials continue upward, a defaulted field always leaves a diagnostic that rejects at every level, accepted "
                "results carry no failing diagnostic. The implementation is compared with both the reader model (whole outcome incl. diagnostics) and the "
                "specification on grammar-directed texts with arbitrary justification, plus single-field corruptions. Proved for every input: a value "
                "standing anywhere inside its columns is read as the value (justification independence); the integers written in a field are the integers "
                "read; a coordinate line assembled from 21 fields of the column widths is lexed to exactly the values of its fields without a diagnostic. "
                "The columns every function of the lexer reads are regenerated from the source on every run (T6) and proved equal to the reviewed table "
                "of the format description's columns (104 fields of 17 record types). The record loop of the reader model on a coordinate record is "
                "proved to be a first-match insert-or-update at the three levels, and any run of such records is proved to build exactly the nested "
                "first-appearance partition of the specification (reader model = grouping specification, for every record sequence). The loop is "
                "further proved to simulate the walk of the specification on coordinate and TER records (Proofs/C01sim.v): the same wrap offsets, "
                "generated chain names, atom identities, atom fields and keys, so that from the start of a file the model being built equals the "
                "partition of the walk's keyed atoms for every run of well-formed records; a decimal numeral in a field is read as the value the "
                "specification gives its text. DBREF / SEQADV / MODRES records are part of the specification (annotation of the first model that has "
                "the chain, names and insertion codes compared in their stored case); the MODRES pass of the reader model is proved equal to the "
                "specification's step on every structure (Proofs/C01annot.v), and the simulation is carried across MODEL / ENDMDL records: the "
                "models the reader model has built are the models of the specification walk for every well-formed record sequence (Proofs/C01models.v); with HEADER, REMARK and CRYST1 records in between, "
                "identifier, remarks, cell and space group are the specification's as well (Proofs/C01meta.v).",
        "design_ref": "DESIGN.md section 6 C01",
        "note": "Partial: the refinement read_pdb (render recs) = denote recs is checked by correspondence, not proved; SSBOND is "
                "covered by the reader-model correspondence only (DBREF / SEQADV are specified and compared, not proved); SEQRES validation is not modelled. Trusted: Coq kernel, T2 table translators, the "
                "binary64 parsing model (cross-validated against rustc), extraction, harness.",
        "technique": "Coq specification + reader model with proved structural lemmas; differential correspondence (implementation vs model vs specification)",
    },
    "C05": {
        "text": "The panic-capable constructs (index, unwrap, expect, panic!, assert!) of the PDB reader and of the code it calls are regenerated "
                "from the source on every run (T7) and proved equal to a reviewed table in which every site has its guard stated; the reader model is "
                "a total function in which every former panic is a diagnostic; proved: every field parser either parses or leaves an "
                "InvalidatingError, which fails every level; the reader always classifies (accepted with only passing diagnostics, or rejected "
                "with a failing one). The compiled code is explored on prefixes, single-column mutations with ASCII / multi-byte / invalid UTF-8, "
                "multi-fault file mutations, all options and levels, in two build profiles; diagnostics are rendered and their quoted lines compared "
                "with the input.",
        "design_ref": "DESIGN.md section 6 C05",
        "note": "Absence of panics and termination of the compiled code are a for-all-inputs claim that the model cannot exhibit: they are explored "
                "(about 50k inputs per quick run), not proved; the T7 table ties the review to the source. Trusted: Coq kernel, T7, extraction, harness.",
        "technique": "Coq proof over a translator-regenerated panic-site inventory + totality lemmas of the reader model; fault-enumeration correspondence",
    },
}

CHECKS["C06"] = {
    "text": "The panic-capable constructs of the mmCIF lexer and parser and of the code they call are regenerated from the source on every run (T7) "
            "and proved equal to a reviewed table in which every site has its guard stated. The executable reader model (lexer on fuel, parser, "
            "post passes, gate) mirrors the repaired code; proved for every input: the lexer's loops consume input so its fuel never runs out "
            "(termination), a lexer failure is a BreakingError and the reader always classifies, loop rows are as wide as the header and are the "
            "values in order (the row[x] accesses), matrix indices taken from item names are below 3, unit-cell setters only see values they accept, "
            "the uncertainty accumulator fits 32 bits. The compiled code is explored on prefixes, token-class replacements, structural faults, "
            "multi-fault mutations and corpus samples under all options and levels, each read under a time limit, in two build profiles, and its "
            "full outcome is compared with the model on every ASCII input.",
    "design_ref": "DESIGN.md section 6 C06",
    "note": "Absence of panics and termination of the compiled code are explored (about 18k inputs per quick run), not proved; the T7 table ties "
            "the review to the source and the correspondence ties the model to the code. Trusted: Coq kernel, T7, extraction, harness.",
    "technique": "Coq proof (termination of the lexer model, classification, row-grid and range lemmas) over a translator-regenerated panic-site inventory; fault-enumeration correspondence with the extracted reader model",
}

CHECKS["C02"] = {
    "text": "An abstract mmCIF document (data block name, metadata items, atom_site rows, each value given by its meaning) has a specification "
            "in Coq (Spec/CifSpec.v): models by number in first-appearance order, chains by author id (label id when absent), residues by author "
            "number (label number when absent) and insertion code, conformers by name and alternate location, numbers as the correctly rounded "
            "binary64 value of the decimal token, blank alternate locations redistributed, metadata from the cell / symmetry / matrix / NCS items. "
            "The specification is a function of the document alone, so every layout has the same expected result. The reader model (lexer + parser, "
            "shared with C06) is proved to take every legal spelling for its value (white space and comments skipped, quoted strings and text "
            "fields give their content, trimmed on use), to invert the printer on whole constructs - for every sequence of values in any legal "
            "spelling separated by any white space and comments the value loop reads back exactly the values, a printed loop is read back as its "
            "header names and its values in rows, a printed single item as its name and value (Proofs/C02seq.v) -, to read the atom rows through "
            "the column names only (any column order, foreign columns), to ignore foreign items, loops and frames, never to substitute a number, "
            "and to reject at every level once an InvalidatingError is recorded. A grammar-directed writer renders each document in several layouts (column permutations and subsets, foreign columns, every "
            "spelling, comments / blank lines / CRLF, foreign items, loops, text fields and save frames anywhere) and the crate's reader is compared "
            "with the specification (property) and with the reader model (correspondence); single-token corruptions must be rejected.",
    "design_ref": "DESIGN.md section 6 C02",
    "note": "The refinement theorem read_cif (render doc) = denote doc is not proved: reader model and specification are compared on every "
            "generated layout. Three recorded findings (numeric-looking identifiers re-spelled, quote inside a quoted string, residue number "
            "defaulted) are reported as KNOWN-FINDING. Trusted: Coq kernel, extraction, harness generator, T2 translators for the symmetry and element tables.",
    "technique": "Coq specification of the document + proved lexer/parser layout lemmas; grammar-directed differential correspondence of the crate against the extracted specification and reader model",
}

CHECKS["C04"] = {
    "text": "The literal text of the mmCIF writer (the format strings of its write! invocations and the anisotropic header) and the reader's tag "
            "tables (define_columns!, the item names and prefixes it matches) are regenerated from the source on every run (T5). The writer model "
            "(Model/CifWrite.v: placeholder filling, print_float in exact binary64 arithmetic, base-26 label ids, the aligned table) and the reader "
            "model (shared with C02/C06) are compared with the crate on every generated structure (bytes written, outcome of the re-read). The "
            "round-trip specification (Spec/CifRoundTrip.v) states, independently of the writer's arithmetic, when a re-read structure is the "
            "original with every atom number rounded to five decimals and identifier, cell, space group, scale, origx and NCS operators unchanged; "
            "it is evaluated on every (original, re-read) pair, and a second write must reproduce the file byte for byte. Proved, for every binary64 "
            "value: the shortest-digits text ({} of f64, used for cell, scale, origx and NCS values) of a non-zero value is read back by the decimal "
            "parser as a rational that rounds to exactly that value - the digit search only accepts digits that pass this test, and the printed text "
            "is proved to parse to them (Proofs/Shortest.v); a fixed-point text reads back as exactly the decimal it shows. Proved: every tag the "
            "writer emits is one the reader recognises or is on the reviewed list of ignored tags, and every mandatory reader column is written; "
            "the hand-written column and item tables of the reader model equal the regenerated ones. Proved about writer and lexer together "
            "(Proofs/C04table.v): the aligned atom_site table of any structure is a token sequence (every cell after a separator of blanks or the "
            "line end of the row before), and the loop the writer prints - its literal header, regenerated from the source, followed by the padded "
            "rows - is read by the lexer as exactly the column names of the literal and, row by row, the values of the cells, provided every cell "
            "is a legal unquoted spelling; and every cell is one for every structure whose identifiers are (the property's precondition): the numbers "
            "print_float and the integer formatter print, the element symbols, the generated label ids and the record names are proved legal for "
            "every value (Proofs/C04cells.v, with a decidable criterion for a legal spelling).",
    "design_ref": "DESIGN.md section 6 C04",
    "note": "read_cif (save_mmcif s) = round5 s is proved up to the lexed atom_site loop, not through the row parser and not for the single items; both models are tied to the code by correspondence and the "
            "specification is evaluated per structure. Trusted: Coq kernel, T5, extraction, harness generator.",
    "technique": "Coq proof over translator-regenerated tag tables (writer tags are reader tags) + executable round-trip specification; differential correspondence of writer and reader models with the crate",
}

CHECKS["C15"] = {
    "text": "Proved for the reader models (for every input): discard_hydrogens is the removal of the hydrogen lines (PDB: fold over the numbered "
            "lines) and hydrogen rows (mmCIF: fold over the atom_site rows); only_atomic_coords in the mmCIF model is the removal of the single "
            "items; only_first_model in the PDB model is the unrestricted reader on the lines before the record that starts a second model, "
            "followed by that record's step (which closes the first model as without the option, opens none and stops the reader; a stopped "
            "reader ignores the rest); in the row loop of the mmCIF model a row of another model than the one settled on stops the loop "
            "without touching the structure and a stopped loop ignores the rows that follow. Proved for the name functions (models of guess_format and check_extension / save / save_gz): a path dir/stem.ext is classified "
            "by ext alone, case-insensitively; stem.ext.gz selects decompression and the format of ext; names without a dot and hidden files have "
            "no extension. The specification of the options is the C01 / C02 specification applied to the filtered records or rows (hydrogens "
            "removed, first model only, no metadata); every generated text is read by the crate under all eight option sets and compared with it "
            "and with the reader models; 54 file-name shapes are opened (with PDB, mmCIF and gzip contents in turn), probed for a missing file, and "
            "saved through save and save_gz, and the observed choice of reader / writer is compared with the name model.",
    "design_ref": "DESIGN.md section 6 C15",
    "note": "The only_first_model clause of the mmCIF reader is checked by correspondence and specification only (no theorem: the reader stops at the "
            "first row of another model, which equals the filter only for contiguous models); for the PDB reader the prefix theorem is proved, its "
            "equality with 'the first model of the unrestricted read' (later records not touching the first model) is checked per text. Real file-system and gzip behaviour is exercised, not modelled. "
            "Trusted: Coq kernel, extraction, harness, flate2.",
    "technique": "Coq proof that the options are filters in the reader models and that the name functions split at the last dot; differential correspondence over all option sets and file-name shapes",
}

CHECKS["C03"] = {
    "text": "The PDB writer model (Model/PdbWrite.v: the field function that keeps the last columns of a value, every record emitter, the exact "
            "fixed-point formatting of binary64 values) and the PDB reader model (C01) are compared with the crate on every generated structure "
            "(bytes written at the three levels, outcome of the re-read). The round-trip specification (Spec/PdbRoundTrip.v) states, independently "
            "of the writer's formatting, when a re-read structure is the original with every number rounded to the precision of its columns "
            "(coordinates 3, occupancy and B 2, tensors 4, cell 3 / 2, matrices 6 / 5 decimals) and identifier, remarks, space group, modifications "
            "and database references unchanged; it is evaluated on every (original, re-read) pair; a second write must reproduce the file byte for "
            "byte; and an independent fixed-column reading of every written file (columns of the format description, written in Coq) must give "
            "the atoms of the structure. Proved, for every value and every precision: the text the fixed-point formatter produces for a binary64 value is read back by the "
            "decimal parser as exactly r / 10^p with r the value rounded half-to-even to p decimals (within half a unit of the last decimal, exact "
            "for integers), and the digits written for an integer read back as that integer (Proofs/Decimal.v). Proved for the writer model's "
            "field function: a value that fits its columns is written unchanged and padded to the exact width, an empty value is blank. Proved "
            "about the two models together (Proofs/C03line.v): the coordinate line the writer prints for any atom whose fields fit their columns is "
            "dispatched to the coordinate lexer with the atom's hetero flag and lexed, without a diagnostic, to exactly the atom's serial number, "
            "name, alternate location, residue name, chain, residue number, insertion code, element and charge and to its five numbers rounded "
            "half-to-even to the decimals of their columns. One value just outside its columns is put on a fifth of the structures: a structure "
            "the validation is silent about is always judged by the round trip. Structures numbered through the serial-number limits are round-tripped at the loose level.",
    "design_ref": "DESIGN.md section 6 C03",
    "note": "read_pdb (save_pdb s) = round s is proved for the coordinate record, not for the whole file; both models are tied to the code by correspondence and the specification "
            "is evaluated per structure. The clause 'values that fit the documented ranges pass validation' is decided by C18. Trusted: Coq kernel, extraction, harness generator.",
    "technique": "Coq proof of the decimal print / parse round trip and of the field function; writer and reader models with an executable round-trip specification and an independent fixed-column reader; differential correspondence with the crate",
}

NOT_APPLICABLE = []
