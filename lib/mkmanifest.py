#!/usr/bin/env python3
"""Writes MANIFEST.json from lib/manifest_entries.py (kept in one place so that it always validates)."""
import json, os, sys
ROOT = os.path.dirname(os.path.dirname(os.path.abspath(__file__)))
sys.path.insert(0, os.path.join(ROOT, "lib"))
from manifest_entries import CHECKS, NOT_APPLICABLE, NOTES

checks = []
for pid, c in sorted(CHECKS.items()):
    checks.append({
        "property_id": pid,
        "quick_cmd": f"./check {pid} --tier quick",
        "thorough_cmd": f"./check {pid} --tier thorough",
        "evidence_file": f"/verif/evidence/{pid}.json",
        "replay_cmd_template": f"./check {pid} --replay {{path}}",
        "engine": "coq-proof+correspondence",
        "level_claimed": {"category": "proof", "text": c["text"], "design_ref": c["design_ref"]},
        "level_note": c["note"],
        "technique": c["technique"],
    })
m = {
    "version": 1,
    "setup_cmd": "./check setup",
    "hooks": {
        "guard": "pdbtbx_verif",
        "enable": "RUSTFLAGS=\"--cfg pdbtbx_verif\" (no hook is needed so far: every observation goes through the public API)",
        "baseline_off_cmd": "cd /repo && cargo nextest run --workspace --no-fail-fast --offline || cargo test --workspace --no-fail-fast --offline",
        "source_commits": [],
        "add_only": True,
    },
    "engines": [{
        "name": "coq-proof+correspondence",
        "path": "/verif/check",
        "serves_properties": sorted(CHECKS),
        "kind_free_text": "Rocq/Coq 8.16 theorems about an executable Gallina model (coq/), model parts regenerated from /repo by translators/rs2coq, "
                          "hand-written parts tied by a differential correspondence (harness/ runs the crate, ocaml/driver runs the extracted model)",
    }],
    "checks": checks,
    "not_applicable": NOT_APPLICABLE,
    "notes": NOTES,
}
json.dump(m, open(os.path.join(ROOT, "MANIFEST.json"), "w"), indent=1)
print("MANIFEST.json written with", len(checks), "checks")
