#!/usr/bin/env python3
"""Show where two s-expression files (impl.obs / model.obs) differ, per kind.  Usage: sxdiff.py DIR [kind-substring] [max]"""
import re, sys
def parse(s):
    toks = re.findall(r'\(|\)|[^\s()]+', s)
    def rd(i):
        if toks[i] == '(':
            l = []; i += 1
            while toks[i] != ')':
                x, i = rd(i); l.append(x)
            return l, i + 1
        return toks[i], i + 1
    return rd(0)[0] if toks else None
def show(x):
    if isinstance(x, list): return '(' + ' '.join(show(y) for y in x) + ')'
    if x.startswith('#'):
        try: return repr(bytes.fromhex(x[1:]).decode('latin1'))
        except Exception: return x
    return x
def diff(a, b, path=''):
    if isinstance(a, list) and isinstance(b, list):
        if len(a) != len(b):
            return f'{path}: length {len(a)} vs {len(b)}: impl {show(a)[:300]} || model {show(b)[:300]}'
        for i, (x, y) in enumerate(zip(a, b)):
            d = diff(x, y, f'{path}/{i}')
            if d: return d
        return None
    if a != b: return f'{path}: impl {show(a)[:200]} || model {show(b)[:200]}'
    return None
d = sys.argv[1]; want = sys.argv[2] if len(sys.argv) > 2 else ''; mx = int(sys.argv[3]) if len(sys.argv) > 3 else 5
import os, glob
kinds = open(f'{d}/kinds.txt').read().split('\n'); impl = open(f'{d}/impl.obs').read().split('\n')
if os.path.exists(f'{d}/model.obs'):
    model = open(f'{d}/model.obs').read().split('\n')
else:
    # per-entry outputs: line k of out_<entry>.txt answers line k of in_<entry>.txt; put them back in case order
    cases_ = open(f'{d}/cases.txt').read().split('\n')
    model = [''] * len(cases_)
    pos = {}
    for i, c in enumerate(cases_): pos.setdefault(c, []).append(i)
    for f in glob.glob(f'{d}/out_*.txt'):
        ins = open(os.path.join(os.path.dirname(f), os.path.basename(f).replace('out_', 'in_'))).read().split('\n'); outs = open(f).read().split('\n')
        for c, o in zip(ins, outs):
            for i in pos.get(c, []): model[i] = o
cases = open(f'{d}/cases.txt').read().split('\n')
n = 0
for i, (k, a, m) in enumerate(zip(kinds, impl, model)):
    if a != m and want in k:
        n += 1
        if n <= mx:
            print(f'[{i+1}] {k}: {diff(parse(a), parse(m))}')
            if '--case' in sys.argv: print('   case:', show(parse(cases[i]))[:1500])
print('total', n)
