(* Generic driver for the extracted model: reads one s-expression per line on stdin (or from the file
   given as first argument), calls Model.run, prints one line per input line.  The only glue is the
   conversion between OCaml chars and the extracted `ascii` inductive. *)
let ascii_of_char (c : char) : Model.ascii =
  let n = Char.code c in
  let b i = (n lsr i) land 1 = 1 in
  Model.Ascii (b 0, b 1, b 2, b 3, b 4, b 5, b 6, b 7)

let char_of_ascii (a : Model.ascii) : char =
  let Model.Ascii (b0, b1, b2, b3, b4, b5, b6, b7) = a in
  let v b i = if b then 1 lsl i else 0 in
  Char.chr (v b0 0 + v b1 1 + v b2 2 + v b3 3 + v b4 4 + v b5 5 + v b6 6 + v b7 7)

let text_of_string (s : string) : Model.ascii list =
  let rec go i acc = if i < 0 then acc else go (i - 1) (ascii_of_char s.[i] :: acc) in
  go (String.length s - 1) []

let string_of_text (t : Model.ascii list) : string =
  let b = Buffer.create 256 in
  List.iter (fun a -> Buffer.add_char b (char_of_ascii a)) t;
  Buffer.contents b

let () =
  let ic = if Array.length Sys.argv > 1 then open_in Sys.argv.(1) else stdin in
  let oc = if Array.length Sys.argv > 2 then open_out Sys.argv.(2) else stdout in
  (try
     while true do
       let line = input_line ic in
       let out = try string_of_text (Model.run (text_of_string line)) with Stack_overflow -> "model-stack-overflow" in
       output_string oc out;
       output_char oc '\n'
     done
   with End_of_file -> ());
  close_out oc
