//! T4: the range checks of `validate_pdb` (src/validate.rs) -> Gen/ValidateTable.v
//!
//! Accepted shape: nested `for x in y.<children>()` loops; inside them
//!   if <cond> { errors.push(PDBError::new(ErrorLevel::<L>, "<short>", ...)) }
//!   if let Some(v) = x.<optional accessor>() { <ifs on v> }
//!   if let Some((a, b)) = conformer.modification() { <ifs on a, b> }
//! with <cond> a disjunction of comparisons `<subject> > LIT`, `<subject> < LIT`, `>=`, `<=` (either operand order),
//! where <subject> is `x.<accessor>()` or `x.<accessor>().len()` or `v.len()`.
//! Every check becomes one row: (field, [(op, bound)...], level, short).
use crate::util::*;
use quote::ToTokens;
use std::path::Path;
use syn::*;

#[derive(Clone)]
struct Row {
    field: String,
    bounds: Vec<(String, String)>, // (Coq constructor Gt/Lt/Ge/Le, bound term)
    level: String,
    short: String,
}

struct Cx {
    vars: Vec<(String, String)>, // variable -> field prefix it denotes (e.g. "alt_loc" -> "ConfAlt")
    rows: Vec<Row>,
}

type R<T> = std::result::Result<T, String>;

fn field_of(var_ty: &str, accessor: &str, len: bool) -> R<String> {
    let f = match (var_ty, accessor, len) {
        ("model", "serial_number", false) => "VModelSerial",
        ("chain", "id", true) => "VChainIdLen",
        ("residue", "serial_number", false) => "VResSerial",
        ("conformer", "name", true) => "VConfNameLen",
        ("atom", "name", true) => "VAtomNameLen",
        ("atom", "serial_number", false) => "VAtomSerial",
        ("atom", "charge", false) => "VAtomCharge",
        ("atom", "occupancy", false) => "VAtomOcc",
        ("atom", "b_factor", false) => "VAtomB",
        ("atom", "x", false) => "VAtomX",
        ("atom", "y", false) => "VAtomY",
        ("atom", "z", false) => "VAtomZ",
        _ => return Err(format!("unknown validated subject {var_ty}.{accessor}{}", if len { ".len()" } else { "" })),
    };
    Ok(f.to_string())
}

fn lit_bound(e: &Expr) -> R<String> {
    match e {
        Expr::Lit(ExprLit { lit: Lit::Int(i), .. }) => Ok(format!("(BInt {})", i.base10_digits())),
        Expr::Lit(ExprLit { lit: Lit::Float(f), .. }) => float_bound(f.base10_digits(), false),
        Expr::Unary(u) if matches!(u.op, UnOp::Neg(_)) => match &*u.expr {
            Expr::Lit(ExprLit { lit: Lit::Int(i), .. }) => Ok(format!("(BInt (-{}))", i.base10_digits())),
            Expr::Lit(ExprLit { lit: Lit::Float(f), .. }) => float_bound(f.base10_digits(), true),
            _ => Err("negated non-literal".into()),
        },
        Expr::Paren(p) => lit_bound(&p.expr),
        other => Err(format!("bound is not a literal: {}", other.to_token_stream())),
    }
}

/// a float literal: its decimal text and the exact binary64 value (m * 2^e, m odd) that rustc gives it
fn float_bound(digits: &str, neg: bool) -> R<String> {
    let v: f64 = digits.parse().map_err(|_| format!("float literal {digits}"))?;
    let v = if neg { -v } else { v };
    let bits = v.to_bits();
    let sign: i128 = if bits >> 63 == 1 { -1 } else { 1 };
    let exp = ((bits >> 52) & 0x7ff) as i64;
    let frac = (bits & 0xf_ffff_ffff_ffff) as i128;
    let (mut m, mut e) = if exp == 0 { (frac, -1074i64) } else { (frac | (1i128 << 52), exp - 1075) };
    if m == 0 {
        e = 0;
    }
    while m != 0 && m & 1 == 0 {
        m >>= 1;
        e += 1;
    }
    let text = format!("{}{}", if neg { "-" } else { "" }, digits);
    Ok(format!("(BFloat {} ({}) ({}))", coq_str(&text), sign * m, e))
}

impl Cx {
    fn subject(&self, e: &Expr) -> R<String> {
        // x.acc() | x.acc().len() | v.len() | v
        match e {
            Expr::Paren(p) => self.subject(&p.expr),
            Expr::MethodCall(m) if m.args.is_empty() => {
                let name = m.method.to_string();
                if name == "len" {
                    match &*m.receiver {
                        Expr::MethodCall(inner) if inner.args.is_empty() => {
                            let v = inner.receiver.to_token_stream().to_string();
                            let ty = self.var_kind(&v)?;
                            field_of(&ty, &inner.method.to_string(), true)
                        }
                        Expr::Path(p) => {
                            let v = p.to_token_stream().to_string();
                            let k = self.var_kind(&v)?;
                            Ok(format!("{k}Len"))
                        }
                        other => Err(format!("len of {}", other.to_token_stream())),
                    }
                } else {
                    let v = m.receiver.to_token_stream().to_string();
                    let ty = self.var_kind(&v)?;
                    field_of(&ty, &name, false)
                }
            }
            other => Err(format!("subject {}", other.to_token_stream())),
        }
    }
    fn var_kind(&self, v: &str) -> R<String> {
        self.vars.iter().rev().find(|(n, _)| n == v).map(|(_, k)| k.clone()).ok_or(format!("unknown variable {v}"))
    }
    fn cond(&self, e: &Expr, field: &mut Option<String>, out: &mut Vec<(String, String)>) -> R<()> {
        match e {
            Expr::Paren(p) => self.cond(&p.expr, field, out),
            Expr::Binary(b) => {
                let op = b.op.to_token_stream().to_string();
                if op == "||" {
                    self.cond(&b.left, field, out)?;
                    return self.cond(&b.right, field, out);
                }
                let (subj, bound, flip) = if let Ok(bd) = lit_bound(&b.right) {
                    (self.subject(&b.left)?, bd, false)
                } else {
                    (self.subject(&b.right)?, lit_bound(&b.left)?, true)
                };
                let c = match (op.as_str(), flip) {
                    (">", false) | ("<", true) => "Gt",
                    ("<", false) | (">", true) => "Lt",
                    (">=", false) | ("<=", true) => "Ge",
                    ("<=", false) | (">=", true) => "Le",
                    _ => return Err(format!("operator {op}")),
                };
                match field {
                    Some(f) if *f != subj => return Err(format!("one check on two subjects ({f}, {subj})")),
                    _ => *field = Some(subj),
                }
                out.push((c.to_string(), bound));
                Ok(())
            }
            other => Err(format!("condition {}", other.to_token_stream())),
        }
    }
    fn push_row(&mut self, cond: &Expr, then: &Block) -> R<()> {
        // the body must be exactly one errors.push(PDBError::new(ErrorLevel::X, "short", ...))
        if then.stmts.len() != 1 {
            return Err("check body with several statements".into());
        }
        let call = match &then.stmts[0] {
            Stmt::Expr(Expr::MethodCall(m), _) if m.method == "push" && m.args.len() == 1 => &m.args[0],
            _ => return Err("check body is not errors.push(..)".into()),
        };
        let args = match call {
            Expr::Call(c) if c.func.to_token_stream().to_string().replace(' ', "").ends_with("PDBError::new") => &c.args,
            _ => return Err("pushed value is not PDBError::new(..)".into()),
        };
        if args.len() < 2 {
            return Err("PDBError::new arity".into());
        }
        let level = match &args[0] {
            Expr::Path(p) => p.path.segments.last().map(|s| s.ident.to_string()).ok_or("level")?,
            _ => return Err("level is not a path".into()),
        };
        let short = match &args[1] {
            Expr::Lit(ExprLit { lit: Lit::Str(s), .. }) => s.value(),
            _ => return Err("short description is not a literal".into()),
        };
        let mut field = None;
        let mut bounds = Vec::new();
        self.cond(cond, &mut field, &mut bounds)?;
        self.rows.push(Row { field: field.ok_or("no subject")?, bounds, level, short });
        Ok(())
    }
    fn stmts(&mut self, stmts: &[Stmt]) -> R<()> {
        for st in stmts {
            match st {
                Stmt::Expr(e, _) => self.stmt_expr(e)?,
                Stmt::Local(_) => return Err("let binding inside the validation loops".into()),
                _ => return Err("item or macro inside the validation loops".into()),
            }
        }
        Ok(())
    }
    fn stmt_expr(&mut self, e: &Expr) -> R<()> {
        match e {
            Expr::ForLoop(f) => {
                let var = f.pat.to_token_stream().to_string();
                // for x in y.children()
                let kind = match &*f.expr {
                    Expr::MethodCall(m) if m.args.is_empty() => match m.method.to_string().as_str() {
                        "models" => "model",
                        "chains" => "chain",
                        "residues" => "residue",
                        "conformers" => "conformer",
                        "atoms" => "atom",
                        other => return Err(format!("loop over {other}()")),
                    },
                    other => return Err(format!("loop source {}", other.to_token_stream())),
                };
                self.vars.push((var, kind.to_string()));
                let r = self.stmts(&f.body.stmts);
                self.vars.pop();
                r
            }
            Expr::If(i) => {
                if i.else_branch.is_some() {
                    return Err("if/else inside the validation loops".into());
                }
                if let Expr::Let(l) = &*i.cond {
                    // if let Some(pat) = x.accessor()
                    let (recv, acc) = match &*l.expr {
                        Expr::MethodCall(m) if m.args.is_empty() => (m.receiver.to_token_stream().to_string(), m.method.to_string()),
                        other => return Err(format!("if let source {}", other.to_token_stream())),
                    };
                    let ty = self.var_kind(&recv)?;
                    let inner: Vec<(String, String)> = match (&*l.pat, ty.as_str(), acc.as_str()) {
                        (Pat::TupleStruct(ts), "residue", "insertion_code") if ts.elems.len() == 1 => {
                            vec![(ts.elems[0].to_token_stream().to_string(), "VResIcode".into())]
                        }
                        (Pat::TupleStruct(ts), "conformer", "alternative_location") if ts.elems.len() == 1 => {
                            vec![(ts.elems[0].to_token_stream().to_string(), "VConfAlt".into())]
                        }
                        (Pat::TupleStruct(ts), "conformer", "modification") if ts.elems.len() == 1 => match &ts.elems[0] {
                            Pat::Tuple(t) if t.elems.len() == 2 => vec![
                                (t.elems[0].to_token_stream().to_string(), "VModName".into()),
                                (t.elems[1].to_token_stream().to_string(), "VModComment".into()),
                            ],
                            _ => return Err("modification pattern".into()),
                        },
                        _ => return Err(format!("if let on {ty}.{acc}()")),
                    };
                    let n = inner.len();
                    self.vars.extend(inner);
                    let r = self.stmts(&i.then_branch.stmts);
                    for _ in 0..n {
                        self.vars.pop();
                    }
                    r
                } else {
                    self.push_row(&i.cond, &i.then_branch)
                }
            }
            other => Err(format!("statement {}", other.to_token_stream().to_string().chars().take(80).collect::<String>())),
        }
    }
}

pub fn generate(repo: &Path) -> R<String> {
    let f = parse_rs(repo, "src/validate.rs")?;
    let func = find_fn(&f, "validate_pdb").ok_or("fn validate_pdb not found")?;
    // expected frame: `let mut errors = validate(pdb);` ... loops ... `errors`
    let stmts = &func.block.stmts;
    if stmts.len() < 3 {
        return Err("validate_pdb body too short".into());
    }
    match &stmts[0] {
        Stmt::Local(l) => {
            let init = l.init.as_ref().map(|i| i.expr.to_token_stream().to_string().replace(' ', "")).unwrap_or_default();
            if init != "validate(pdb)" {
                return Err(format!("validate_pdb does not start from validate(pdb): {init}"));
            }
        }
        _ => return Err("first statement of validate_pdb is not a let".into()),
    }
    match stmts.last() {
        Some(Stmt::Expr(Expr::Path(p), None)) if p.to_token_stream().to_string() == "errors" => {}
        _ => return Err("validate_pdb does not end with `errors`".into()),
    }
    let mut cx = Cx { vars: vec![("pdb".into(), "pdb".into())], rows: vec![] };
    // the outermost loop runs over pdb.models()
    cx.stmts(&stmts[1..stmts.len() - 1])?;
    let mut s = String::new();
    s.push_str("(* GENERATED by translators/rs2coq (T4) from src/validate.rs (validate_pdb). Do not edit. *)\n");
    s.push_str("From Coq Require Import List String ZArith.\nFrom PV Require Import Spec.ValidateSpec.\nImport ListNotations.\nOpen Scope string_scope.\n");
    s.push_str("Definition validate_rules : list vrule := [\n");
    let rows: Vec<String> = cx
        .rows
        .iter()
        .map(|r| {
            let bs: Vec<String> = r.bounds.iter().map(|(c, b)| format!("(C{c}, {b})")).collect();
            format!("  mk_vrule {} [{}] V{} {}", r.field, bs.join("; "), r.level, coq_str(&r.short))
        })
        .collect();
    s.push_str(&rows.join(";\n"));
    s.push_str("\n].\n");
    Ok(s)
}
