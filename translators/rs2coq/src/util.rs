use std::path::Path;

pub fn write_if_changed(path: &Path, text: &str) {
    if let Ok(old) = std::fs::read_to_string(path) {
        if old == text {
            return;
        }
    }
    std::fs::write(path, text).expect("write generated file");
}

pub fn read(repo: &Path, rel: &str) -> Result<String, String> {
    std::fs::read_to_string(repo.join(rel)).map_err(|e| format!("cannot read {rel}: {e}"))
}

pub fn parse_rs(repo: &Path, rel: &str) -> Result<syn::File, String> {
    let src = read(repo, rel)?;
    syn::parse_file(&src).map_err(|e| format!("cannot parse {rel}: {e}"))
}

/// Find `impl <ty> { fn <name> }` (inherent impl) in a parsed file.
pub fn find_method<'a>(file: &'a syn::File, ty: &str, name: &str) -> Option<&'a syn::ImplItemFn> {
    use quote::ToTokens;
    for item in &file.items {
        if let syn::Item::Impl(i) = item {
            if i.trait_.is_some() {
                continue;
            }
            if i.self_ty.to_token_stream().to_string() != ty {
                continue;
            }
            for it in &i.items {
                if let syn::ImplItem::Fn(m) = it {
                    if m.sig.ident == name {
                        return Some(m);
                    }
                }
            }
        }
    }
    None
}

pub fn find_fn<'a>(file: &'a syn::File, name: &str) -> Option<&'a syn::ItemFn> {
    for item in &file.items {
        if let syn::Item::Fn(f) = item {
            if f.sig.ident == name {
                return Some(f);
            }
        }
    }
    None
}

pub fn find_enum<'a>(file: &'a syn::File, name: &str) -> Option<&'a syn::ItemEnum> {
    for item in &file.items {
        if let syn::Item::Enum(e) = item {
            if e.ident == name {
                return Some(e);
            }
        }
    }
    None
}

/// Coq string literal (doubles the quote character).
pub fn coq_str(s: &str) -> String {
    format!("\"{}\"", s.replace('"', "\"\""))
}
