use std::path::Path;
pub fn generate(_repo: &Path) -> Result<String, String> { Err("not implemented".into()) }
