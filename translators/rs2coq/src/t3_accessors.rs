//! T3: the read-only accessor methods of PDB / Model / Chain / Residue / Conformer -> Gen/Accessors.v
//!
//! Accepted fragment for a method body (a single expression):
//!   self.<field>                      the child vector (models, chains, residues, conformers, atoms)
//!   e.iter() | e.par_iter() | e.into_iter()    the same list
//!   e.len() | e.count()               length
//!   e.is_empty()
//!   e.get(i) | e.nth(i)               nth_error
//!   e.map(f) | e.flat_map(f) | e.rev() | e.sum() | e.fold(init, |acc, x| body) | e.next() | e.next_back() | e.last()
//!   e.extend(x)                       hierarchy tuple extended by one ancestor: (e, x)
//!   x.method() / Type::method         another accessor of the hierarchy (resolved by the element type)
//!   if c { a } else { b }, e[0], literals, +, (a, b), closures |x| e, move |x| e, paths Type::from_tuple (identity)
//! Methods taking `&mut self`, raw pointers, or anything else are reported as skipped (they are covered by
//! the correspondence, not by the translator).  A skipped method that Props/C09.v names makes that file fail.
use crate::util::*;
use quote::ToTokens;
use std::collections::{BTreeMap, BTreeSet};
use std::path::Path;
use syn::*;

const TYPES: [(&str, &str, &str); 5] = [
    ("PDB", "pdb", "src/structs/pdb.rs"),
    ("Model", "model", "src/structs/model.rs"),
    ("Chain", "chain", "src/structs/chain.rs"),
    ("Residue", "residue", "src/structs/residue.rs"),
    ("Conformer", "conformer", "src/structs/conformer.rs"),
];

fn field_proj(ty: &str, field: &str) -> Option<(&'static str, &'static str)> {
    // (Coq projection, element type)
    match (ty, field) {
        ("PDB", "models") => Some(("pdb_models", "Model")),
        ("Model", "chains") => Some(("m_chains", "Chain")),
        ("Chain", "residues") => Some(("ch_residues", "Residue")),
        ("Residue", "conformers") => Some(("r_confs", "Conformer")),
        ("Conformer", "atoms") => Some(("c_atoms", "Atom")),
        _ => None,
    }
}

fn elem_by_method(name: &str) -> Option<&'static str> {
    let n = name.trim_start_matches("par_").trim_end_matches("_mut");
    match n {
        "models" => Some("Model"),
        "chains" => Some("Chain"),
        "residues" => Some("Residue"),
        "conformers" => Some("Conformer"),
        "atoms" => Some("Atom"),
        _ => None,
    }
}

struct Cx<'a> {
    ty: &'a str,
    vars: Vec<(String, Option<String>)>, // closure variables with their hierarchy type when known
    deps: BTreeSet<(String, String)>,
    known: &'a BTreeSet<(String, String)>, // all (Type, method) candidates
}

type R = std::result::Result<String, String>;

impl<'a> Cx<'a> {
    fn var_type(&self, name: &str) -> Option<String> {
        for (n, t) in self.vars.iter().rev() {
            if n == name {
                return t.clone();
            }
        }
        None
    }
    /// hierarchy type of the value of an expression, when it is one of the five types (or Atom)
    fn type_of(&self, e: &Expr) -> Option<String> {
        match e {
            Expr::Path(p) => {
                let s = p.to_token_stream().to_string();
                if s == "self" {
                    Some(self.ty.to_string())
                } else {
                    self.var_type(&s)
                }
            }
            Expr::Index(i) => self.elem_type(&i.expr),
            Expr::Reference(r) => self.type_of(&r.expr),
            Expr::Paren(p) => self.type_of(&p.expr),
            _ => None,
        }
    }
    /// element type of an iterator / vector expression
    fn elem_type(&self, e: &Expr) -> Option<String> {
        match e {
            Expr::Field(f) => {
                let base = self.type_of(&f.base)?;
                if let Member::Named(n) = &f.member {
                    field_proj(&base, &n.to_string()).map(|x| x.1.to_string())
                } else {
                    None
                }
            }
            Expr::MethodCall(m) => {
                let name = m.method.to_string();
                match name.as_str() {
                    "iter" | "par_iter" | "into_iter" | "rev" | "filter" | "skip" | "take" | "iter_mut" | "par_iter_mut" => self.elem_type(&m.receiver),
                    _ => elem_by_method(&name).map(str::to_string),
                }
            }
            Expr::Reference(r) => self.elem_type(&r.expr),
            Expr::Paren(p) => self.elem_type(&p.expr),
            _ => None,
        }
    }
    fn callee(&mut self, ty: &str, method: &str) -> R {
        if ty == "Atom" {
            return Err(format!("call of Atom::{method}"));
        }
        let key = (ty.to_string(), method.to_string());
        if !self.known.contains(&key) {
            return Err(format!("unknown accessor {ty}::{method}"));
        }
        self.deps.insert(key);
        Ok(format!("{ty}_{method}"))
    }
    /// a function-valued argument of map / flat_map
    fn func(&mut self, e: &Expr, arg_ty: Option<String>) -> R {
        match e {
            Expr::Path(p) => {
                let segs: Vec<String> = p.path.segments.iter().map(|s| s.ident.to_string()).collect();
                match segs.as_slice() {
                    [.., t, m] if m == "from_tuple" && t.starts_with("Atom") => Ok("(fun t => t)".into()),
                    [t, m] => self.callee(t, m),
                    _ => Err(format!("function path {}", segs.join("::"))),
                }
            }
            Expr::Closure(c) => {
                if c.inputs.len() != 1 {
                    return Err("closure arity".into());
                }
                let name = match &c.inputs[0] {
                    Pat::Ident(i) => i.ident.to_string(),
                    Pat::Type(t) => t.pat.to_token_stream().to_string(),
                    other => return Err(format!("closure pattern {}", other.to_token_stream())),
                };
                self.vars.push((name.clone(), arg_ty));
                let body = self.expr(&c.body);
                self.vars.pop();
                Ok(format!("(fun {name} => {})", body?))
            }
            other => Err(format!("function argument {}", other.to_token_stream())),
        }
    }
    fn block(&mut self, b: &Block) -> R {
        if b.stmts.len() != 1 {
            return Err("block with several statements".into());
        }
        match &b.stmts[0] {
            Stmt::Expr(e, None) => self.expr(e),
            _ => Err("statement outside fragment".into()),
        }
    }
    fn expr(&mut self, e: &Expr) -> R {
        match e {
            Expr::Paren(p) => self.expr(&p.expr),
            Expr::Reference(r) => self.expr(&r.expr),
            Expr::Block(b) => self.block(&b.block),
            Expr::Lit(l) => match &l.lit {
                Lit::Int(i) => Ok(i.base10_digits().to_string()),
                _ => Err("literal".into()),
            },
            Expr::Path(p) => {
                let s = p.to_token_stream().to_string();
                if s == "self" || self.vars.iter().any(|(n, _)| *n == s) || s == "index" {
                    Ok(s)
                } else {
                    Err(format!("free path {s}"))
                }
            }
            Expr::Tuple(t) if t.elems.len() == 2 => Ok(format!("({}, {})", self.expr(&t.elems[0])?, self.expr(&t.elems[1])?)),
            Expr::Binary(b) if matches!(b.op, BinOp::Add(_)) => Ok(format!("({} + {})", self.expr(&b.left)?, self.expr(&b.right)?)),
            Expr::Field(f) => {
                let base_ty = self.type_of(&f.base).ok_or("field of unknown type")?;
                let base = self.expr(&f.base)?;
                if let Member::Named(n) = &f.member {
                    let (proj, _) = field_proj(&base_ty, &n.to_string()).ok_or(format!("field {base_ty}.{n}"))?;
                    Ok(format!("({proj} {base})"))
                } else {
                    Err("tuple field".into())
                }
            }
            Expr::Index(i) => {
                let et = self.elem_type(&i.expr).ok_or("index into unknown vector")?;
                let v = self.expr(&i.expr)?;
                let ix = self.expr(&i.index)?;
                Ok(format!("(nth {ix} {v} default_{et})"))
            }
            Expr::If(i) => {
                let c = self.expr(&i.cond)?;
                let t = self.block(&i.then_branch)?;
                let el = match &i.else_branch {
                    Some((_, e)) => self.expr(e)?,
                    None => return Err("if without else".into()),
                };
                Ok(format!("(if {c} then {t} else {el})"))
            }
            Expr::MethodCall(m) => {
                let name = m.method.to_string();
                let args: Vec<&Expr> = m.args.iter().collect();
                // accessor of the hierarchy on a value of known type
                if let Some(t) = self.type_of(&m.receiver) {
                    if args.is_empty() && !matches!(name.as_str(), "iter" | "len") {
                        let recv = self.expr(&m.receiver)?;
                        let f = self.callee(&t, &name)?;
                        return Ok(format!("({f} {recv})"));
                    }
                    if name == "extend" && args.len() == 1 {
                        // hierarchy tuple (not a known hierarchy type) is handled below; a container's Extend is a mutator
                        return Err("Extend on a container".into());
                    }
                }
                let et = self.elem_type(&m.receiver);
                let recv = self.expr(&m.receiver)?;
                match (name.as_str(), args.len()) {
                    ("iter" | "par_iter" | "into_iter", 0) => Ok(recv),
                    ("len" | "count", 0) => Ok(format!("(length {recv})")),
                    ("is_empty", 0) => Ok(format!("(is_nil {recv})")),
                    ("sum", 0) => Ok(format!("(list_sum {recv})")),
                    ("rev", 0) => Ok(format!("(rev {recv})")),
                    ("next", 0) => Ok(format!("(hd_error {recv})")),
                    ("next_back" | "last", 0) => Ok(format!("(hd_error (rev {recv}))")),
                    ("get" | "nth", 1) => Ok(format!("(nth_error {recv} {})", self.expr(args[0])?)),
                    ("map", 1) => Ok(format!("(map {} {recv})", self.func(args[0], et)?)),
                    ("flat_map", 1) => Ok(format!("(flat_map {} {recv})", self.func(args[0], et)?)),
                    ("extend", 1) => Ok(format!("({recv}, {})", self.expr(args[0])?)),
                    ("fold", 2) => {
                        let init = self.expr(args[0])?;
                        if let Expr::Closure(c) = args[1] {
                            if c.inputs.len() != 2 {
                                return Err("fold closure arity".into());
                            }
                            let a = c.inputs[0].to_token_stream().to_string();
                            let x = c.inputs[1].to_token_stream().to_string();
                            self.vars.push((a.clone(), None));
                            self.vars.push((x.clone(), et));
                            let body = self.expr(&c.body);
                            self.vars.pop();
                            self.vars.pop();
                            Ok(format!("(fold_left (fun {a} {x} => {}) {recv} {init})", body?))
                        } else {
                            Err("fold without closure".into())
                        }
                    }
                    (n, k) => Err(format!("method {n}/{k}")),
                }
            }
            other => Err(format!("expression {}", other.to_token_stream().to_string().chars().take(60).collect::<String>())),
        }
    }
}

pub fn generate(repo: &Path) -> std::result::Result<String, String> {
    // 1. collect candidate methods: pub fn, receiver &self (not &mut self), at most one extra argument named index
    let mut files = Vec::new();
    for (ty, _, path) in TYPES {
        files.push((ty, parse_rs(repo, path)?));
    }
    let mut cands: Vec<(String, String, &ImplItemFn)> = Vec::new();
    for (ty, file) in &files {
        for item in &file.items {
            if let Item::Impl(i) = item {
                if i.trait_.is_some() || i.self_ty.to_token_stream().to_string() != *ty {
                    continue;
                }
                for it in &i.items {
                    if let ImplItem::Fn(m) = it {
                        let is_ref_self = matches!(m.sig.inputs.first(), Some(FnArg::Receiver(r)) if matches!(&r.kind, ReceiverKind::Reference(_, _, None)));
                        if !is_ref_self || !matches!(m.vis, Visibility::Public(_)) {
                            continue;
                        }
                        let extra: Vec<String> = m
                            .sig
                            .inputs
                            .iter()
                            .skip(1)
                            .map(|a| match a {
                                FnArg::Typed(t) => t.pat.to_token_stream().to_string(),
                                _ => "?".into(),
                            })
                            .collect();
                        if extra.len() > 1 || (extra.len() == 1 && extra[0] != "index") {
                            continue;
                        }
                        cands.push((ty.to_string(), m.sig.ident.to_string(), m));
                    }
                }
            }
        }
    }
    let known: BTreeSet<(String, String)> = cands.iter().map(|(t, m, _)| (t.clone(), m.clone())).collect();
    // 2. translate
    let mut defs: BTreeMap<(String, String), (String, BTreeSet<(String, String)>, bool)> = BTreeMap::new();
    let mut skipped: Vec<String> = Vec::new();
    for (ty, name, m) in &cands {
        let mut cx = Cx { ty, vars: vec![], deps: BTreeSet::new(), known: &known };
        let has_index = m.sig.inputs.len() == 2;
        match cx.block(&m.block) {
            Ok(body) => {
                defs.insert((ty.clone(), name.clone()), (body, cx.deps, has_index));
            }
            Err(e) => skipped.push(format!("{ty}::{name}: {e}")),
        }
    }
    // 3. drop definitions whose dependencies were skipped (transitively), then order topologically
    loop {
        let bad: Vec<(String, String)> = defs
            .iter()
            .filter(|(_, (_, deps, _))| deps.iter().any(|d| !defs.contains_key(d)))
            .map(|(k, _)| k.clone())
            .collect();
        if bad.is_empty() {
            break;
        }
        for k in bad {
            skipped.push(format!("{}::{}: depends on a skipped accessor", k.0, k.1));
            defs.remove(&k);
        }
    }
    let mut order: Vec<(String, String)> = Vec::new();
    let mut done: BTreeSet<(String, String)> = BTreeSet::new();
    fn visit(
        k: &(String, String),
        defs: &BTreeMap<(String, String), (String, BTreeSet<(String, String)>, bool)>,
        done: &mut BTreeSet<(String, String)>,
        order: &mut Vec<(String, String)>,
        depth: usize,
    ) -> std::result::Result<(), String> {
        if done.contains(k) {
            return Ok(());
        }
        if depth > 64 {
            return Err(format!("cyclic accessor definitions at {}::{}", k.0, k.1));
        }
        for d in &defs[k].1 {
            if d != k {
                visit(d, defs, done, order, depth + 1)?;
            }
        }
        done.insert(k.clone());
        order.push(k.clone());
        Ok(())
    }
    let keys: Vec<(String, String)> = defs.keys().cloned().collect();
    for k in &keys {
        visit(k, &defs, &mut done, &mut order, 0)?;
    }
    let coq_ty = |t: &str| TYPES.iter().find(|x| x.0 == t).map(|x| x.1).unwrap_or("unit");
    let mut s = String::new();
    s.push_str("(* GENERATED by translators/rs2coq (T3) from src/structs/{pdb,model,chain,residue,conformer}.rs. Do not edit. *)\n");
    s.push_str("From Coq Require Import List Arith.\nFrom PV Require Import Base.Text Spec.Hier.\nImport ListNotations.\n");
    s.push_str("Definition pdb_models (p : pdb) : list model := p.\n");
    for k in &order {
        let (body, _, has_index) = &defs[k];
        let arg = if *has_index { " (index : nat)" } else { "" };
        s.push_str(&format!("Definition {}_{} (self : {}){arg} := {body}.\n", k.0, k.1, coq_ty(&k.0)));
    }
    s.push_str(&format!("(* translated: {} ; skipped: {} *)\n", order.len(), skipped.len()));
    for sk in &skipped {
        s.push_str(&format!("(* skipped {} *)\n", sk.replace("*)", "* )").replace("(*", "( *")));
    }
    Ok(s)
}
