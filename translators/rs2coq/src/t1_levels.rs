//! T1: `ErrorLevel::fails` (src/error/errorlevel.rs) and the two enums -> Gen/LevelTable.v
//! Accepted fragment for the body: a single expression built from
//!   true | false | !e | e && e | e || e | (e) | {e} | if c {a} else {b}
//!   matches!(x, P | Q ...) | match x { P | Q => e, .. } | x == V | x != V
//!   x < V, <=, >, >= (derived PartialOrd = declaration order, only for ErrorLevel)
//! where x is `self`, `*self`, `level` (any deref/reference form) and patterns are enum variants or `_`.
use crate::util::*;
use quote::ToTokens;
use std::path::Path;
use syn::*;

struct Cx {
    err_variants: Vec<String>,
    lvl_variants: Vec<String>,
    level_arg: String,
}

fn variant_of(p: &syn::Path) -> Option<String> {
    p.segments.last().map(|s| s.ident.to_string())
}

impl Cx {
    fn var(&self, e: &Expr) -> std::result::Result<&'static str, String> {
        match e {
            Expr::Path(p) => {
                let s = p.to_token_stream().to_string();
                if s == "self" {
                    Ok("self")
                } else if s == self.level_arg {
                    Ok("level")
                } else {
                    Err(format!("unknown variable {s}"))
                }
            }
            Expr::Unary(u) if matches!(u.op, UnOp::Deref(_)) => self.var(&u.expr),
            Expr::Reference(r) => self.var(&r.expr),
            Expr::Paren(p) => self.var(&p.expr),
            other => Err(format!("not a variable: {}", other.to_token_stream())),
        }
    }
    fn pat(&self, p: &Pat, out: &mut Vec<String>) -> std::result::Result<(), String> {
        match p {
            Pat::Or(o) => {
                for c in &o.cases {
                    self.pat(c, out)?;
                }
                Ok(())
            }
            Pat::Path(pp) => {
                out.push(self.known(variant_of(&pp.path).ok_or("empty path")?)?);
                Ok(())
            }
            Pat::Ident(i) if i.subpat.is_none() && i.by_ref.is_none() => {
                out.push(self.known(i.ident.to_string())?);
                Ok(())
            }
            Pat::Wild(_) => {
                out.push("_".into());
                Ok(())
            }
            Pat::Reference(r) => self.pat(&r.pat, out),
            Pat::Paren(r) => self.pat(&r.pat, out),
            other => Err(format!("pattern outside fragment: {}", other.to_token_stream())),
        }
    }
    fn known(&self, v: String) -> std::result::Result<String, String> {
        if self.err_variants.contains(&v) || self.lvl_variants.contains(&v) {
            Ok(v)
        } else {
            Err(format!("unknown variant {v}"))
        }
    }
    fn value(&self, e: &Expr) -> std::result::Result<String, String> {
        match e {
            Expr::Path(p) => self.known(variant_of(&p.path).ok_or("empty path")?),
            Expr::Reference(r) => self.value(&r.expr),
            Expr::Paren(p) => self.value(&p.expr),
            other => Err(format!("not a variant: {}", other.to_token_stream())),
        }
    }
    fn block(&self, b: &Block) -> std::result::Result<String, String> {
        if b.stmts.len() != 1 {
            return Err("block with more than one statement".into());
        }
        match &b.stmts[0] {
            Stmt::Expr(e, None) => self.expr(e),
            Stmt::Expr(Expr::Return(r), _) => self.expr(r.expr.as_ref().ok_or("empty return")?),
            _ => Err("statement outside fragment".into()),
        }
    }
    fn expr(&self, e: &Expr) -> std::result::Result<String, String> {
        match e {
            Expr::Lit(l) => match &l.lit {
                Lit::Bool(b) => Ok(if b.value { "true".into() } else { "false".into() }),
                _ => Err("non-bool literal".into()),
            },
            Expr::Paren(p) => self.expr(&p.expr),
            Expr::Block(b) => self.block(&b.block),
            Expr::Return(r) => self.expr(r.expr.as_ref().ok_or("empty return")?),
            Expr::Unary(u) if matches!(u.op, UnOp::Not(_)) => Ok(format!("(negb {})", self.expr(&u.expr)?)),
            Expr::Binary(b) => {
                let op = b.op.to_token_stream().to_string();
                match op.as_str() {
                    "&&" => Ok(format!("(andb {} {})", self.expr(&b.left)?, self.expr(&b.right)?)),
                    "||" => Ok(format!("(orb {} {})", self.expr(&b.left)?, self.expr(&b.right)?)),
                    "==" | "!=" | "<" | "<=" | ">" | ">=" => {
                        let x = self.var(&b.left)?;
                        let v = self.value(&b.right)?;
                        let (rank, ok) = if x == "self" {
                            ("rankE", self.err_variants.contains(&v))
                        } else {
                            ("rankS", self.lvl_variants.contains(&v))
                        };
                        if !ok {
                            return Err(format!("variant {v} of the wrong enum"));
                        }
                        if x == "level" && !(op == "==" || op == "!=") {
                            return Err("StrictnessLevel has no PartialOrd".into());
                        }
                        let c = match op.as_str() {
                            "==" => format!("(Nat.eqb ({rank} {x}) ({rank} {v}))"),
                            "!=" => format!("(negb (Nat.eqb ({rank} {x}) ({rank} {v})))"),
                            "<" => format!("(Nat.ltb ({rank} {x}) ({rank} {v}))"),
                            "<=" => format!("(Nat.leb ({rank} {x}) ({rank} {v}))"),
                            ">" => format!("(Nat.ltb ({rank} {v}) ({rank} {x}))"),
                            _ => format!("(Nat.leb ({rank} {v}) ({rank} {x}))"),
                        };
                        Ok(c)
                    }
                    _ => Err(format!("operator {op}")),
                }
            }
            Expr::If(i) => {
                let c = self.expr(&i.cond)?;
                let t = self.block(&i.then_branch)?;
                let e = match &i.else_branch {
                    Some((_, e)) => self.expr(e)?,
                    None => return Err("if without else".into()),
                };
                Ok(format!("(if {c} then {t} else {e})"))
            }
            Expr::Match(m) => {
                let x = self.var(&m.expr)?;
                let mut s = format!("(match {x} with");
                for arm in &m.arms {
                    let mut ps = Vec::new();
                    self.pat(&arm.pat, &mut ps)?;
                    s.push_str(&format!(" | {} => {}", ps.join(" | "), self.expr(&arm.body)?));
                }
                s.push_str(" end)");
                Ok(s)
            }
            Expr::Macro(m) if m.mac.path.is_ident("matches") => {
                struct MArgs(Expr, Pat);
                impl syn::parse::Parse for MArgs {
                    fn parse(input: syn::parse::ParseStream<'_>) -> syn::Result<Self> {
                        let e: Expr = input.parse()?;
                        let _: Token![,] = input.parse()?;
                        let p = Pat::parse_multi_with_leading_vert(input)?;
                        let _ = input.parse::<Option<Token![,]>>()?;
                        if !input.is_empty() {
                            return Err(input.error("guard in matches!"));
                        }
                        Ok(MArgs(e, p))
                    }
                }
                let MArgs(x, p) = syn::parse2(m.mac.tokens.clone()).map_err(|e| e.to_string())?;
                let x = self.var(&x)?;
                let mut ps = Vec::new();
                self.pat(&p, &mut ps)?;
                if ps.iter().any(|p| p == "_") {
                    Ok("true".into())
                } else {
                    Ok(format!("(match {x} with | {} => true | _ => false end)", ps.join(" | ")))
                }
            }
            other => Err(format!("expression outside fragment: {}", other.to_token_stream())),
        }
    }
}

pub fn generate(repo: &Path) -> std::result::Result<String, String> {
    let el = parse_rs(repo, "src/error/errorlevel.rs")?;
    let sl = parse_rs(repo, "src/strictness_level.rs")?;
    let ee = find_enum(&el, "ErrorLevel").ok_or("enum ErrorLevel not found")?;
    let se = find_enum(&sl, "StrictnessLevel").ok_or("enum StrictnessLevel not found")?;
    let err_variants: Vec<String> = ee.variants.iter().map(|v| v.ident.to_string()).collect();
    let lvl_variants: Vec<String> = se.variants.iter().map(|v| v.ident.to_string()).collect();
    let f = find_method(&el, "ErrorLevel", "fails").ok_or("ErrorLevel::fails not found")?;
    let mut level_arg = None;
    for a in &f.sig.inputs {
        if let FnArg::Typed(t) = a {
            level_arg = Some(t.pat.to_token_stream().to_string());
        }
    }
    let cx = Cx { err_variants: err_variants.clone(), lvl_variants: lvl_variants.clone(), level_arg: level_arg.ok_or("fails has no level argument")? };
    let body = cx.block(&f.block)?;
    let mut s = String::new();
    s.push_str("(* GENERATED by translators/rs2coq (T1) from src/error/errorlevel.rs and src/strictness_level.rs. Do not edit. *)\n");
    s.push_str("From Coq Require Import Bool Arith.\n");
    s.push_str(&format!("Inductive ErrorLevel : Set := {}.\n", err_variants.join(" | ")));
    s.push_str(&format!("Inductive StrictnessLevel : Set := {}.\n", lvl_variants.join(" | ")));
    s.push_str("Definition rankE (e : ErrorLevel) : nat := match e with");
    for (i, v) in err_variants.iter().enumerate() {
        s.push_str(&format!(" | {v} => {i}"));
    }
    s.push_str(" end.\nDefinition rankS (l : StrictnessLevel) : nat := match l with");
    for (i, v) in lvl_variants.iter().enumerate() {
        s.push_str(&format!(" | {v} => {i}"));
    }
    s.push_str(" end.\n");
    s.push_str(&format!("Definition fails (self : ErrorLevel) (level : StrictnessLevel) : bool :=\n  {body}.\n"));
    Ok(s)
}
