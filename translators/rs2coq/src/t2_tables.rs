use std::path::Path;
pub fn generate_sg(_repo: &Path) -> Result<String, String> { Err("not implemented".into()) }
pub fn generate_names(_repo: &Path) -> Result<String, String> { Err("not implemented".into()) }
pub fn generate_elements(_repo: &Path) -> Result<String, String> { Err("not implemented".into()) }
