//! T5: the tag tables of the mmCIF reader and the literal text of the mmCIF writer -> Gen/CifTags.v
//!  * cif_reader_columns : the define_columns! table of parse_atoms (label, required)
//!  * cif_reader_items / cif_reader_prefixes : the item names matched exactly / by starts_with in parse_mmcif_with_options
//!  * cif_reader_loop_prefix : the prefix that makes a loop the atom loop
//!  * cif_writer_formats : the format strings of the write! invocations of save_mmcif_raw, in order, with their argument counts
use crate::util::*;
use proc_macro2::{TokenStream, TokenTree};
use std::path::Path;
use syn::visit::Visit;
use syn::*;

struct Macros {
    name: String,
    found: Vec<TokenStream>,
}
impl<'ast> Visit<'ast> for Macros {
    fn visit_macro(&mut self, m: &'ast Macro) {
        if m.path.segments.last().map(|s| s.ident.to_string()).as_deref() == Some(self.name.as_str()) {
            self.found.push(m.tokens.clone());
        }
        visit::visit_macro(self, m);
    }
}

fn lit_str(t: &TokenTree) -> Option<String> {
    if let TokenTree::Literal(l) = t {
        if let Ok(Lit::Str(s)) = syn::parse_str::<Lit>(&l.to_string()) {
            return Some(s.value());
        }
    }
    None
}

struct Arms {
    exact: Vec<String>,
    prefixes: Vec<String>,
    loop_prefix: Vec<String>,
}
impl Arms {
    fn pat(&mut self, p: &Pat) {
        match p {
            Pat::Lit(l) => {
                if let Lit::Str(s) = &l.lit {
                    self.exact.push(s.value());
                }
            }
            Pat::Or(o) => {
                for c in &o.cases {
                    self.pat(c);
                }
            }
            // `s if s.starts_with("...")`
            Pat::Guard(g) => {
                self.pat(&g.pat);
                if let Some(s) = starts_with_arg(&g.guard) {
                    self.prefixes.push(s);
                }
            }
            _ => {}
        }
    }
}
/// string literal argument of a `<x>.starts_with("...")` call
fn starts_with_arg(e: &Expr) -> Option<String> {
    if let Expr::MethodCall(m) = e {
        if m.method == "starts_with" {
            if let Some(Expr::Lit(ExprLit { lit: Lit::Str(s), .. })) = m.args.first() {
                return Some(s.value());
            }
        }
    }
    None
}
impl<'ast> Visit<'ast> for Arms {
    fn visit_arm(&mut self, a: &'ast Arm) {
        self.pat(&a.pat);
        visit::visit_arm(self, a);
    }
    fn visit_expr_closure(&mut self, c: &'ast ExprClosure) {
        // multiple.header.iter().any(|h| h.starts_with("atom_site."))
        if let Some(s) = starts_with_arg(&c.body) {
            self.loop_prefix.push(s);
        }
        visit::visit_expr_closure(self, c);
    }
}

pub fn generate(repo: &Path) -> std::result::Result<String, String> {
    // ----- reader -----
    let parser = parse_rs(repo, "src/read/mmcif/parser.rs")?;
    let atoms = find_fn(&parser, "parse_atoms").ok_or("parse_atoms not found")?;
    let mut m = Macros { name: "define_columns".into(), found: vec![] };
    m.visit_item_fn(atoms);
    if m.found.len() != 1 {
        return Err(format!("expected one define_columns! invocation, found {}", m.found.len()));
    }
    // rows: <int> , <IDENT> , "<label>" , <Required|Optional> ;
    let toks: Vec<TokenTree> = m.found[0].clone().into_iter().collect();
    let mut columns: Vec<(String, bool)> = Vec::new();
    for row in toks.split(|t| matches!(t, TokenTree::Punct(p) if p.as_char() == ';')) {
        if row.is_empty() {
            continue;
        }
        let fields: Vec<&[TokenTree]> = row.split(|t| matches!(t, TokenTree::Punct(p) if p.as_char() == ',')).collect();
        if fields.len() != 4 || fields[2].len() != 1 || fields[3].len() != 1 {
            return Err(format!("unexpected row in define_columns!: {}", row.iter().map(|t| t.to_string()).collect::<Vec<_>>().join(" ")));
        }
        let label = lit_str(&fields[2][0]).ok_or("column label is not a string literal")?;
        let req = match fields[3][0].to_string().as_str() {
            "Required" => true,
            "Optional" => false,
            other => return Err(format!("unexpected column mode {other}")),
        };
        let idx: usize = fields[0].iter().map(|t| t.to_string()).collect::<String>().parse().map_err(|_| "column index is not a number")?;
        if idx != columns.len() {
            return Err(format!("column indices are not consecutive at {label}"));
        }
        columns.push((label, req));
    }
    let main = find_fn(&parser, "parse_mmcif_with_options").ok_or("parse_mmcif_with_options not found")?;
    let mut arms = Arms { exact: vec![], prefixes: vec![], loop_prefix: vec![] };
    arms.visit_item_fn(main);
    if arms.loop_prefix.len() != 1 {
        return Err(format!("expected one atom loop test, found {}", arms.loop_prefix.len()));
    }
    // ----- writer -----
    let writer = parse_rs(repo, "src/save/mmcif.rs")?;
    let save = find_fn(&writer, "save_mmcif_raw").ok_or("save_mmcif_raw not found")?;
    let mut w = Macros { name: "write".into(), found: vec![] };
    w.visit_block(&save.block);
    let mut formats: Vec<(String, usize)> = Vec::new();
    for ts in &w.found {
        let toks: Vec<TokenTree> = ts.clone().into_iter().collect();
        if toks.is_empty() {
            return Err("empty write! invocation".into());
        }
        // the macro definition itself matches `$($arg:tt)*`: skip token streams that do not start with a string literal
        let Some(f) = lit_str(&toks[0]) else {
            continue;
        };
        // top-level commas separate the arguments
        let args = toks.iter().filter(|t| matches!(t, TokenTree::Punct(p) if p.as_char() == ',')).count();
        // a trailing comma does not add an argument
        let trailing = matches!(toks.last(), Some(TokenTree::Punct(p)) if p.as_char() == ',');
        let n = if trailing { args - 1 } else { args };
        if f.matches("{}").count() != n {
            return Err(format!("write! with {} placeholders and {} arguments", f.matches("{}").count(), n));
        }
        if f.contains('{') && f.replace("{}", "").contains('{') {
            return Err("write! with a format specification other than {}".into());
        }
        formats.push((f, n));
    }
    // the extra header lines of the anisotropic columns are a literal inside an argument of the loop header write!
    fn literals(ts: TokenStream, out: &mut Vec<String>) {
        for t in ts {
            match &t {
                TokenTree::Group(g) => literals(g.stream(), out),
                other => {
                    if let Some(s) = lit_str(other) {
                        out.push(s);
                    }
                }
            }
        }
    }
    let mut all = Vec::new();
    for ts in &w.found {
        literals(ts.clone(), &mut all);
    }
    let aniso: Vec<&String> = all.iter().filter(|l| l.contains("aniso_U")).collect();
    if aniso.len() != 1 {
        return Err(format!("expected one literal with the anisotropic column names, found {}", aniso.len()));
    }
    if formats.is_empty() {
        return Err("no write! invocation found in save_mmcif_raw".into());
    }
    let mut s = String::new();
    s.push_str("(* GENERATED by translators/rs2coq (T5): tag tables of the mmCIF reader and literal text of the mmCIF writer. Do not edit. *)\n");
    s.push_str("From Coq Require Import List String.\nImport ListNotations.\nOpen Scope string_scope.\n");
    s.push_str("Definition cif_reader_columns : list (string * bool) := [\n");
    s.push_str(&columns.iter().map(|(l, r)| format!("  ({}, {})", coq_str(l), r)).collect::<Vec<_>>().join(";\n"));
    s.push_str("\n].\n");
    s.push_str(&format!("Definition cif_reader_items : list string := [{}].\n", arms.exact.iter().map(|x| coq_str(x)).collect::<Vec<_>>().join("; ")));
    s.push_str(&format!("Definition cif_reader_prefixes : list string := [{}].\n", arms.prefixes.iter().map(|x| coq_str(x)).collect::<Vec<_>>().join("; ")));
    s.push_str(&format!("Definition cif_reader_loop_prefix : string := {}.\n", coq_str(&arms.loop_prefix[0])));
    s.push_str(&format!("Definition cif_writer_aniso_header : string := {}.\n", coq_str(aniso[0])));
    s.push_str("Definition cif_writer_formats : list (string * nat) := [\n");
    s.push_str(&formats.iter().map(|(f, n)| format!("  ({}, {n})", coq_str(f))).collect::<Vec<_>>().join(";\n"));
    s.push_str("\n].\n");
    Ok(s)
}
