//! rs2coq: regenerates the table-like parts of the Coq model from the current Rust sources.
//! Usage: rs2coq <repo-root> <out-dir>
//! Every generator fails closed: a construct outside its accepted fragment makes it emit a file whose
//! only content is `Definition untranslated_<name> := tt.` plus a comment, and the proofs that need the
//! generated definitions then no longer compile (the check reports that as a broken obligation).
mod t1_levels;
mod t2_tables;
mod t3_accessors;
mod t4_validate;
mod t5_tags;
mod t6_columns;
mod t7_sites;
mod util;

use std::path::Path;

fn main() {
    let args: Vec<String> = std::env::args().collect();
    if args.len() < 3 {
        eprintln!("usage: rs2coq <repo-root> <out-dir> [only]");
        std::process::exit(2);
    }
    let repo = Path::new(&args[1]);
    let out = Path::new(&args[2]);
    let only = args.get(3).map(String::as_str);
    std::fs::create_dir_all(out).expect("out dir");
    let gens: Vec<(&str, &str, fn(&Path) -> Result<String, String>)> = vec![
        ("t1", "LevelTable.v", t1_levels::generate),
        ("t2a", "SgTables.v", t2_tables::generate_sg),
        ("t2b", "NameTables.v", t2_tables::generate_names),
        ("t2c", "Elements.v", t2_tables::generate_elements),
        ("t3", "Accessors.v", t3_accessors::generate),
        ("t4", "ValidateTable.v", t4_validate::generate),
        ("t5", "CifTags.v", t5_tags::generate),
        ("t6", "PdbColumns.v", t6_columns::generate),
        ("t7", "Sites.v", t7_sites::generate),
    ];
    let mut status = Vec::new();
    for (id, file, f) in gens {
        if let Some(o) = only {
            if o != id {
                continue;
            }
        }
        let text = match f(repo) {
            Ok(t) => {
                status.push(format!("{id} ok"));
                t
            }
            Err(e) => {
                status.push(format!("{id} UNTRANSLATED {}", e.replace('\n', " ")));
                format!(
                    "(* generator {id} could not translate the current source: {} *)\nDefinition untranslated_{id} := tt.\n",
                    e.replace("*)", "* )")
                )
            }
        };
        util::write_if_changed(&out.join(file), &text);
    }
    for s in status {
        println!("{s}");
    }
}
