(* Extraction of the executable model used by C03 (PDB writer model, reader model, round-trip specification).  ExtrOcamlBasic directives only. *)
From Coq Require Import extraction.Extraction extraction.ExtrOcamlBasic.
From PV Require Import Base.Sx Model.PdbWriteRun.
Definition run := run_with run_c03.
Extraction "../ocaml/C03/model.ml" run.
