(* Extraction of the executable model used by C06 (the mmCIF reader model).  ExtrOcamlBasic directives only. *)
From Coq Require Import extraction.Extraction extraction.ExtrOcamlBasic.
From PV Require Import Base.Sx Model.CifRun.
Definition run := run_with run_c06.
Extraction "../ocaml/C06/model.ml" run.
