(* Extraction of the executable model used by C05 (the PDB reader model of C01).  ExtrOcamlBasic directives only. *)
From Coq Require Import extraction.Extraction extraction.ExtrOcamlBasic.
From PV Require Import Base.Sx Model.PdbRun.
Definition run := run_with run_c01.
Extraction "../ocaml/C05/model.ml" run.
