(* Extraction of the executable model of C10.  Directives used: exactly those of ExtrOcamlBasic
   (bool, option, unit, list, prod, sumbool, sumor -> native OCaml types); Z, N, positive, nat, ascii and
   string stay the extracted inductives. *)
From Coq Require Import extraction.Extraction extraction.ExtrOcamlBasic.
From PV Require Import Base.Sx Model.EditRun.
Definition run := run_with run_c10.
Extraction "../ocaml/C10/model.ml" run.
