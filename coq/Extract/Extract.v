(* Extraction of the executable model.  Directives used: exactly those of ExtrOcamlBasic
   (bool, option, unit, list, prod, sumbool, sumor -> native OCaml types).  Z, N, positive, nat, ascii and
   string stay the extracted inductives. *)
From Coq Require Import extraction.Extraction extraction.ExtrOcamlBasic.
From PV Require Import Run.
Extraction "../ocaml/model.ml" Run.run.
