(* Extraction of the executable model of C09gen.  Directives used: exactly those of ExtrOcamlBasic
   (bool, option, unit, list, prod, sumbool, sumor -> native OCaml types); Z, N, positive, nat, ascii and
   string stay the extracted inductives. *)
From Coq Require Import extraction.Extraction extraction.ExtrOcamlBasic.
From PV Require Import Base.Sx Model.WalkGen.
Definition run := run_with run_c09gen.
Extraction "../ocaml/C09gen/model.ml" run.
