(* Extraction of the C18 model over the regenerated rule table.  ExtrOcamlBasic directives only. *)
From Coq Require Import extraction.Extraction extraction.ExtrOcamlBasic.
From PV Require Import Base.Sx Model.ValidateRun.
Definition run := run_with run_c18gen.
Extraction "../ocaml/C18gen/model.ml" run.
