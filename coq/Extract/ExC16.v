(* Extraction of the executable model of C16.  ExtrOcamlBasic directives only. *)
From Coq Require Import extraction.Extraction extraction.ExtrOcamlBasic.
From PV Require Import Base.Sx Model.IdentityRun.
Definition run := run_with run_c16.
Extraction "../ocaml/C16/model.ml" run.
