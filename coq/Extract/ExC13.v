(* Extraction of the executable model of C13.  ExtrOcamlBasic directives only. *)
From Coq Require Import extraction.Extraction extraction.ExtrOcamlBasic.
From PV Require Import Base.Sx Model.TransformRun.
Definition run := run_with run_c13.
Extraction "../ocaml/C13/model.ml" run.
