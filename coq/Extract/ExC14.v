(* Extraction of the executable model of C14.  ExtrOcamlBasic directives only. *)
From Coq Require Import extraction.Extraction extraction.ExtrOcamlBasic.
From PV Require Import Base.Sx Model.GeomRun.
Definition run := run_with run_c14.
Extraction "../ocaml/C14/model.ml" run.
