(* Extraction of the executable model of C18 (oracle over the documented ranges).  ExtrOcamlBasic directives only. *)
From Coq Require Import extraction.Extraction extraction.ExtrOcamlBasic.
From PV Require Import Base.Sx Model.ValidateSpecRun.
Definition run := run_with run_c18.
Extraction "../ocaml/C18/model.ml" run.
