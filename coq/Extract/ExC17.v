(* Extraction of the executable model of C17.  ExtrOcamlBasic directives only. *)
From Coq Require Import extraction.Extraction extraction.ExtrOcamlBasic.
From PV Require Import Base.Sx Model.Symmetry.
Definition run := run_with run_c17.
Extraction "../ocaml/C17/model.ml" run.
