(* Extraction of the executable PDB reader model and record specification (C01, C05, C15).  ExtrOcamlBasic directives only. *)
From Coq Require Import extraction.Extraction extraction.ExtrOcamlBasic.
From PV Require Import Base.Sx Model.PdbRun.
Definition run := run_with run_c01.
Extraction "../ocaml/C01/model.ml" run.
