(* Extraction of the executable model used by C15 (option filters over the record / document specifications, reader models, name functions).  ExtrOcamlBasic directives only. *)
From Coq Require Import extraction.Extraction extraction.ExtrOcamlBasic.
From PV Require Import Base.Sx Model.OptionsRun.
Definition run := run_with run_c15.
Extraction "../ocaml/C15/model.ml" run.
