(* Extraction of the executable model used by C04 (mmCIF writer model, reader model, round-trip specification).  ExtrOcamlBasic directives only. *)
From Coq Require Import extraction.Extraction extraction.ExtrOcamlBasic.
From PV Require Import Base.Sx Model.CifRun.
Definition run := run_with run_c04.
Extraction "../ocaml/C04/model.ml" run.
