(* Extraction of the executable model used by C02 (the mmCIF reader model and the document specification).  ExtrOcamlBasic directives only. *)
From Coq Require Import extraction.Extraction extraction.ExtrOcamlBasic.
From PV Require Import Base.Sx Model.CifRun.
Definition run := run_with run_c02.
Extraction "../ocaml/C02/model.ml" run.
