
(** val negb : bool -> bool **)

let negb = function
| true -> false
| false -> true

type nat =
| O
| S of nat

(** val fst : ('a1 * 'a2) -> 'a1 **)

let fst = function
| (x, _) -> x

(** val snd : ('a1 * 'a2) -> 'a2 **)

let snd = function
| (_, y) -> y

(** val app : 'a1 list -> 'a1 list -> 'a1 list **)

let rec app l m =
  match l with
  | [] -> m
  | a :: l1 -> a :: (app l1 m)

type comparison =
| Eq
| Lt
| Gt

(** val compOpp : comparison -> comparison **)

let compOpp = function
| Eq -> Eq
| Lt -> Gt
| Gt -> Lt

module Coq__1 = struct
 (** val add : nat -> nat -> nat **)
 let rec add n0 m =
   match n0 with
   | O -> m
   | S p -> S (add p m)
end
include Coq__1

(** val eqb : bool -> bool -> bool **)

let eqb b1 b2 =
  if b1 then b2 else if b2 then false else true

(** val rev : 'a1 list -> 'a1 list **)

let rec rev = function
| [] -> []
| x :: l' -> app (rev l') (x :: [])

(** val map : ('a1 -> 'a2) -> 'a1 list -> 'a2 list **)

let rec map f = function
| [] -> []
| a :: t -> (f a) :: (map f t)

(** val flat_map : ('a1 -> 'a2 list) -> 'a1 list -> 'a2 list **)

let rec flat_map f = function
| [] -> []
| x :: t -> app (f x) (flat_map f t)

(** val fold_left : ('a1 -> 'a2 -> 'a1) -> 'a2 list -> 'a1 -> 'a1 **)

let rec fold_left f l a0 =
  match l with
  | [] -> a0
  | b :: t -> fold_left f t (f a0 b)

(** val existsb : ('a1 -> bool) -> 'a1 list -> bool **)

let rec existsb f = function
| [] -> false
| a :: l0 -> (||) (f a) (existsb f l0)

type positive =
| XI of positive
| XO of positive
| XH

type n =
| N0
| Npos of positive

type z =
| Z0
| Zpos of positive
| Zneg of positive

module Pos =
 struct
  type mask =
  | IsNul
  | IsPos of positive
  | IsNeg
 end

module Coq_Pos =
 struct
  (** val succ : positive -> positive **)

  let rec succ = function
  | XI p -> XO (succ p)
  | XO p -> XI p
  | XH -> XO XH

  (** val add : positive -> positive -> positive **)

  let rec add x y =
    match x with
    | XI p ->
      (match y with
       | XI q -> XO (add_carry p q)
       | XO q -> XI (add p q)
       | XH -> XO (succ p))
    | XO p ->
      (match y with
       | XI q -> XI (add p q)
       | XO q -> XO (add p q)
       | XH -> XI p)
    | XH -> (match y with
             | XI q -> XO (succ q)
             | XO q -> XI q
             | XH -> XO XH)

  (** val add_carry : positive -> positive -> positive **)

  and add_carry x y =
    match x with
    | XI p ->
      (match y with
       | XI q -> XI (add_carry p q)
       | XO q -> XO (add_carry p q)
       | XH -> XI (succ p))
    | XO p ->
      (match y with
       | XI q -> XO (add_carry p q)
       | XO q -> XI (add p q)
       | XH -> XO (succ p))
    | XH ->
      (match y with
       | XI q -> XI (succ q)
       | XO q -> XO (succ q)
       | XH -> XI XH)

  (** val pred_double : positive -> positive **)

  let rec pred_double = function
  | XI p -> XI (XO p)
  | XO p -> XI (pred_double p)
  | XH -> XH

  type mask = Pos.mask =
  | IsNul
  | IsPos of positive
  | IsNeg

  (** val succ_double_mask : mask -> mask **)

  let succ_double_mask = function
  | IsNul -> IsPos XH
  | IsPos p -> IsPos (XI p)
  | IsNeg -> IsNeg

  (** val double_mask : mask -> mask **)

  let double_mask = function
  | IsPos p -> IsPos (XO p)
  | x0 -> x0

  (** val double_pred_mask : positive -> mask **)

  let double_pred_mask = function
  | XI p -> IsPos (XO (XO p))
  | XO p -> IsPos (XO (pred_double p))
  | XH -> IsNul

  (** val sub_mask : positive -> positive -> mask **)

  let rec sub_mask x y =
    match x with
    | XI p ->
      (match y with
       | XI q -> double_mask (sub_mask p q)
       | XO q -> succ_double_mask (sub_mask p q)
       | XH -> IsPos (XO p))
    | XO p ->
      (match y with
       | XI q -> succ_double_mask (sub_mask_carry p q)
       | XO q -> double_mask (sub_mask p q)
       | XH -> IsPos (pred_double p))
    | XH -> (match y with
             | XH -> IsNul
             | _ -> IsNeg)

  (** val sub_mask_carry : positive -> positive -> mask **)

  and sub_mask_carry x y =
    match x with
    | XI p ->
      (match y with
       | XI q -> succ_double_mask (sub_mask_carry p q)
       | XO q -> double_mask (sub_mask p q)
       | XH -> IsPos (pred_double p))
    | XO p ->
      (match y with
       | XI q -> double_mask (sub_mask_carry p q)
       | XO q -> succ_double_mask (sub_mask_carry p q)
       | XH -> double_pred_mask p)
    | XH -> IsNeg

  (** val mul : positive -> positive -> positive **)

  let rec mul x y =
    match x with
    | XI p -> add y (XO (mul p y))
    | XO p -> XO (mul p y)
    | XH -> y

  (** val size : positive -> positive **)

  let rec size = function
  | XI p0 -> succ (size p0)
  | XO p0 -> succ (size p0)
  | XH -> XH

  (** val compare_cont : comparison -> positive -> positive -> comparison **)

  let rec compare_cont r x y =
    match x with
    | XI p ->
      (match y with
       | XI q -> compare_cont r p q
       | XO q -> compare_cont Gt p q
       | XH -> Gt)
    | XO p ->
      (match y with
       | XI q -> compare_cont Lt p q
       | XO q -> compare_cont r p q
       | XH -> Gt)
    | XH -> (match y with
             | XH -> r
             | _ -> Lt)

  (** val compare : positive -> positive -> comparison **)

  let compare =
    compare_cont Eq

  (** val iter_op : ('a1 -> 'a1 -> 'a1) -> positive -> 'a1 -> 'a1 **)

  let rec iter_op op p a =
    match p with
    | XI p0 -> op a (iter_op op p0 (op a a))
    | XO p0 -> iter_op op p0 (op a a)
    | XH -> a

  (** val to_nat : positive -> nat **)

  let to_nat x =
    iter_op Coq__1.add x (S O)
 end

module N =
 struct
  (** val succ_double : n -> n **)

  let succ_double = function
  | N0 -> Npos XH
  | Npos p -> Npos (XI p)

  (** val double : n -> n **)

  let double = function
  | N0 -> N0
  | Npos p -> Npos (XO p)

  (** val add : n -> n -> n **)

  let add n0 m =
    match n0 with
    | N0 -> m
    | Npos p -> (match m with
                 | N0 -> n0
                 | Npos q -> Npos (Coq_Pos.add p q))

  (** val sub : n -> n -> n **)

  let sub n0 m =
    match n0 with
    | N0 -> N0
    | Npos n' ->
      (match m with
       | N0 -> n0
       | Npos m' ->
         (match Coq_Pos.sub_mask n' m' with
          | Coq_Pos.IsPos p -> Npos p
          | _ -> N0))

  (** val mul : n -> n -> n **)

  let mul n0 m =
    match n0 with
    | N0 -> N0
    | Npos p -> (match m with
                 | N0 -> N0
                 | Npos q -> Npos (Coq_Pos.mul p q))

  (** val compare : n -> n -> comparison **)

  let compare n0 m =
    match n0 with
    | N0 -> (match m with
             | N0 -> Eq
             | Npos _ -> Lt)
    | Npos n' -> (match m with
                  | N0 -> Gt
                  | Npos m' -> Coq_Pos.compare n' m')

  (** val leb : n -> n -> bool **)

  let leb x y =
    match compare x y with
    | Gt -> false
    | _ -> true

  (** val ltb : n -> n -> bool **)

  let ltb x y =
    match compare x y with
    | Lt -> true
    | _ -> false

  (** val pos_div_eucl : positive -> n -> n * n **)

  let rec pos_div_eucl a b =
    match a with
    | XI a' ->
      let (q, r) = pos_div_eucl a' b in
      let r' = succ_double r in
      if leb b r' then ((succ_double q), (sub r' b)) else ((double q), r')
    | XO a' ->
      let (q, r) = pos_div_eucl a' b in
      let r' = double r in
      if leb b r' then ((succ_double q), (sub r' b)) else ((double q), r')
    | XH ->
      (match b with
       | N0 -> (N0, (Npos XH))
       | Npos p -> (match p with
                    | XH -> ((Npos XH), N0)
                    | _ -> (N0, (Npos XH))))

  (** val div_eucl : n -> n -> n * n **)

  let div_eucl a b =
    match a with
    | N0 -> (N0, N0)
    | Npos na -> (match b with
                  | N0 -> (N0, a)
                  | Npos _ -> pos_div_eucl na b)

  (** val div : n -> n -> n **)

  let div a b =
    fst (div_eucl a b)

  (** val modulo : n -> n -> n **)

  let modulo a b =
    snd (div_eucl a b)
 end

type ascii =
| Ascii of bool * bool * bool * bool * bool * bool * bool * bool

(** val zero : ascii **)

let zero =
  Ascii (false, false, false, false, false, false, false, false)

(** val one : ascii **)

let one =
  Ascii (true, false, false, false, false, false, false, false)

(** val shift : bool -> ascii -> ascii **)

let shift c = function
| Ascii (a1, a2, a3, a4, a5, a6, a7, _) ->
  Ascii (c, a1, a2, a3, a4, a5, a6, a7)

(** val eqb0 : ascii -> ascii -> bool **)

let eqb0 a b =
  let Ascii (a0, a1, a2, a3, a4, a5, a6, a7) = a in
  let Ascii (b0, b1, b2, b3, b4, b5, b6, b7) = b in
  if if if if if if if eqb a0 b0 then eqb a1 b1 else false
                 then eqb a2 b2
                 else false
              then eqb a3 b3
              else false
           then eqb a4 b4
           else false
        then eqb a5 b5
        else false
     then eqb a6 b6
     else false
  then eqb a7 b7
  else false

(** val ascii_of_pos : positive -> ascii **)

let ascii_of_pos =
  let rec loop n0 p =
    match n0 with
    | O -> zero
    | S n' ->
      (match p with
       | XI p' -> shift true (loop n' p')
       | XO p' -> shift false (loop n' p')
       | XH -> one)
  in loop (S (S (S (S (S (S (S (S O))))))))

(** val ascii_of_N : n -> ascii **)

let ascii_of_N = function
| N0 -> zero
| Npos p -> ascii_of_pos p

(** val n_of_digits : bool list -> n **)

let rec n_of_digits = function
| [] -> N0
| b :: l' ->
  N.add (if b then Npos XH else N0) (N.mul (Npos (XO XH)) (n_of_digits l'))

(** val n_of_ascii : ascii -> n **)

let n_of_ascii = function
| Ascii (a0, a1, a2, a3, a4, a5, a6, a7) ->
  n_of_digits
    (a0 :: (a1 :: (a2 :: (a3 :: (a4 :: (a5 :: (a6 :: (a7 :: []))))))))

module Z =
 struct
  (** val double : z -> z **)

  let double = function
  | Z0 -> Z0
  | Zpos p -> Zpos (XO p)
  | Zneg p -> Zneg (XO p)

  (** val succ_double : z -> z **)

  let succ_double = function
  | Z0 -> Zpos XH
  | Zpos p -> Zpos (XI p)
  | Zneg p -> Zneg (Coq_Pos.pred_double p)

  (** val pred_double : z -> z **)

  let pred_double = function
  | Z0 -> Zneg XH
  | Zpos p -> Zpos (Coq_Pos.pred_double p)
  | Zneg p -> Zneg (XI p)

  (** val pos_sub : positive -> positive -> z **)

  let rec pos_sub x y =
    match x with
    | XI p ->
      (match y with
       | XI q -> double (pos_sub p q)
       | XO q -> succ_double (pos_sub p q)
       | XH -> Zpos (XO p))
    | XO p ->
      (match y with
       | XI q -> pred_double (pos_sub p q)
       | XO q -> double (pos_sub p q)
       | XH -> Zpos (Coq_Pos.pred_double p))
    | XH ->
      (match y with
       | XI q -> Zneg (XO q)
       | XO q -> Zneg (Coq_Pos.pred_double q)
       | XH -> Z0)

  (** val add : z -> z -> z **)

  let add x y =
    match x with
    | Z0 -> y
    | Zpos x' ->
      (match y with
       | Z0 -> x
       | Zpos y' -> Zpos (Coq_Pos.add x' y')
       | Zneg y' -> pos_sub x' y')
    | Zneg x' ->
      (match y with
       | Z0 -> x
       | Zpos y' -> pos_sub y' x'
       | Zneg y' -> Zneg (Coq_Pos.add x' y'))

  (** val opp : z -> z **)

  let opp = function
  | Z0 -> Z0
  | Zpos x0 -> Zneg x0
  | Zneg x0 -> Zpos x0

  (** val sub : z -> z -> z **)

  let sub m n0 =
    add m (opp n0)

  (** val mul : z -> z -> z **)

  let mul x y =
    match x with
    | Z0 -> Z0
    | Zpos x' ->
      (match y with
       | Z0 -> Z0
       | Zpos y' -> Zpos (Coq_Pos.mul x' y')
       | Zneg y' -> Zneg (Coq_Pos.mul x' y'))
    | Zneg x' ->
      (match y with
       | Z0 -> Z0
       | Zpos y' -> Zneg (Coq_Pos.mul x' y')
       | Zneg y' -> Zpos (Coq_Pos.mul x' y'))

  (** val compare : z -> z -> comparison **)

  let compare x y =
    match x with
    | Z0 -> (match y with
             | Z0 -> Eq
             | Zpos _ -> Lt
             | Zneg _ -> Gt)
    | Zpos x' -> (match y with
                  | Zpos y' -> Coq_Pos.compare x' y'
                  | _ -> Gt)
    | Zneg x' ->
      (match y with
       | Zneg y' -> compOpp (Coq_Pos.compare x' y')
       | _ -> Lt)

  (** val leb : z -> z -> bool **)

  let leb x y =
    match compare x y with
    | Gt -> false
    | _ -> true

  (** val ltb : z -> z -> bool **)

  let ltb x y =
    match compare x y with
    | Lt -> true
    | _ -> false

  (** val abs : z -> z **)

  let abs = function
  | Zneg p -> Zpos p
  | x -> x

  (** val to_nat : z -> nat **)

  let to_nat = function
  | Zpos p -> Coq_Pos.to_nat p
  | _ -> O

  (** val to_N : z -> n **)

  let to_N = function
  | Zpos p -> Npos p
  | _ -> N0

  (** val of_N : n -> z **)

  let of_N = function
  | N0 -> Z0
  | Npos p -> Zpos p

  (** val pos_div_eucl : positive -> z -> z * z **)

  let rec pos_div_eucl a b =
    match a with
    | XI a' ->
      let (q, r) = pos_div_eucl a' b in
      let r' = add (mul (Zpos (XO XH)) r) (Zpos XH) in
      if ltb r' b
      then ((mul (Zpos (XO XH)) q), r')
      else ((add (mul (Zpos (XO XH)) q) (Zpos XH)), (sub r' b))
    | XO a' ->
      let (q, r) = pos_div_eucl a' b in
      let r' = mul (Zpos (XO XH)) r in
      if ltb r' b
      then ((mul (Zpos (XO XH)) q), r')
      else ((add (mul (Zpos (XO XH)) q) (Zpos XH)), (sub r' b))
    | XH -> if leb (Zpos (XO XH)) b then (Z0, (Zpos XH)) else ((Zpos XH), Z0)

  (** val div_eucl : z -> z -> z * z **)

  let div_eucl a b =
    match a with
    | Z0 -> (Z0, Z0)
    | Zpos a' ->
      (match b with
       | Z0 -> (Z0, a)
       | Zpos _ -> pos_div_eucl a' b
       | Zneg b' ->
         let (q, r) = pos_div_eucl a' (Zpos b') in
         (match r with
          | Z0 -> ((opp q), Z0)
          | _ -> ((opp (add q (Zpos XH))), (add b r))))
    | Zneg a' ->
      (match b with
       | Z0 -> (Z0, a)
       | Zpos _ ->
         let (q, r) = pos_div_eucl a' b in
         (match r with
          | Z0 -> ((opp q), Z0)
          | _ -> ((opp (add q (Zpos XH))), (sub b r)))
       | Zneg b' -> let (q, r) = pos_div_eucl a' (Zpos b') in (q, (opp r)))

  (** val div : z -> z -> z **)

  let div a b =
    let (q, _) = div_eucl a b in q

  (** val modulo : z -> z -> z **)

  let modulo a b =
    let (_, r) = div_eucl a b in r

  (** val log2 : z -> z **)

  let log2 = function
  | Zpos p0 ->
    (match p0 with
     | XI p -> Zpos (Coq_Pos.size p)
     | XO p -> Zpos (Coq_Pos.size p)
     | XH -> Z0)
  | _ -> Z0
 end

type string =
| EmptyString
| String of ascii * string

(** val string_of_list_ascii : ascii list -> string **)

let rec string_of_list_ascii = function
| [] -> EmptyString
| ch :: s0 -> String (ch, (string_of_list_ascii s0))

(** val list_ascii_of_string : string -> ascii list **)

let rec list_ascii_of_string = function
| EmptyString -> []
| String (ch, s0) -> ch :: (list_ascii_of_string s0)

type text = ascii list

type sx =
| SZ of z
| SS of text
| SY of string
| SL of sx list

(** val code : ascii -> n **)

let code =
  n_of_ascii

(** val is_digit : ascii -> bool **)

let is_digit c =
  (&&) (N.leb (Npos (XO (XO (XO (XO (XI XH)))))) (code c))
    (N.leb (code c) (Npos (XI (XO (XO (XI (XI XH)))))))

(** val digit_val : ascii -> z **)

let digit_val c =
  Z.sub (Z.of_N (code c)) (Zpos (XO (XO (XO (XO (XI XH))))))

(** val hex_val : ascii -> n option **)

let hex_val c =
  let n0 = code c in
  if (&&) (N.leb (Npos (XO (XO (XO (XO (XI XH)))))) n0)
       (N.leb n0 (Npos (XI (XO (XO (XI (XI XH)))))))
  then Some (N.sub n0 (Npos (XO (XO (XO (XO (XI XH)))))))
  else if (&&) (N.leb (Npos (XI (XO (XO (XO (XO (XI XH))))))) n0)
            (N.leb n0 (Npos (XO (XI (XI (XO (XO (XI XH))))))))
       then Some (N.sub n0 (Npos (XI (XI (XI (XO (XI (XO XH))))))))
       else None

(** val hex_digit : n -> ascii **)

let hex_digit n0 =
  if N.ltb n0 (Npos (XO (XI (XO XH))))
  then ascii_of_N (N.add (Npos (XO (XO (XO (XO (XI XH)))))) n0)
  else ascii_of_N (N.add (Npos (XI (XI (XI (XO (XI (XO XH))))))) n0)

(** val all_digits : text -> bool **)

let rec all_digits = function
| [] -> true
| c :: r -> (&&) (is_digit c) (all_digits r)

(** val nat_of_digits : text -> z **)

let nat_of_digits s =
  fold_left (fun acc c ->
    Z.add (Z.mul acc (Zpos (XO (XI (XO XH))))) (digit_val c)) s Z0

(** val parse_int : text -> z option **)

let parse_int s = match s with
| [] -> None
| a :: r ->
  let Ascii (b, b0, b1, b2, b3, b4, b5, b6) = a in
  if b
  then if b0
       then if all_digits s then Some (nat_of_digits s) else None
       else if b1
            then if b2
                 then if b3
                      then if all_digits s
                           then Some (nat_of_digits s)
                           else None
                      else if b4
                           then if b5
                                then if all_digits s
                                     then Some (nat_of_digits s)
                                     else None
                                else if b6
                                     then if all_digits s
                                          then Some (nat_of_digits s)
                                          else None
                                     else (match r with
                                           | [] -> None
                                           | _ :: _ ->
                                             if all_digits r
                                             then Some
                                                    (Z.opp (nat_of_digits r))
                                             else None)
                           else if all_digits s
                                then Some (nat_of_digits s)
                                else None
                 else if all_digits s then Some (nat_of_digits s) else None
            else if all_digits s then Some (nat_of_digits s) else None
  else if all_digits s then Some (nat_of_digits s) else None

(** val parse_hex : text -> text option **)

let rec parse_hex = function
| [] -> Some []
| a :: l ->
  (match l with
   | [] -> None
   | b :: r ->
     (match hex_val a with
      | Some x ->
        (match hex_val b with
         | Some y ->
           (match parse_hex r with
            | Some t ->
              Some
                ((ascii_of_N
                   (N.add (N.mul (Npos (XO (XO (XO (XO XH))))) x) y)) :: t)
            | None -> None)
         | None -> None)
      | None -> None))

(** val atom_of : text -> sx **)

let atom_of tok = match tok with
| [] ->
  (match parse_int tok with
   | Some z0 -> SZ z0
   | None -> SY (string_of_list_ascii tok))
| a :: r ->
  let Ascii (b, b0, b1, b2, b3, b4, b5, b6) = a in
  if b
  then if b0
       then if b1
            then (match parse_int tok with
                  | Some z0 -> SZ z0
                  | None -> SY (string_of_list_ascii tok))
            else if b2
                 then (match parse_int tok with
                       | Some z0 -> SZ z0
                       | None -> SY (string_of_list_ascii tok))
                 else if b3
                      then (match parse_int tok with
                            | Some z0 -> SZ z0
                            | None -> SY (string_of_list_ascii tok))
                      else if b4
                           then if b5
                                then (match parse_int tok with
                                      | Some z0 -> SZ z0
                                      | None -> SY (string_of_list_ascii tok))
                                else if b6
                                     then (match parse_int tok with
                                           | Some z0 -> SZ z0
                                           | None ->
                                             SY (string_of_list_ascii tok))
                                     else (match parse_hex r with
                                           | Some t -> SS t
                                           | None ->
                                             SY (string_of_list_ascii tok))
                           else (match parse_int tok with
                                 | Some z0 -> SZ z0
                                 | None -> SY (string_of_list_ascii tok))
       else (match parse_int tok with
             | Some z0 -> SZ z0
             | None -> SY (string_of_list_ascii tok))
  else (match parse_int tok with
        | Some z0 -> SZ z0
        | None -> SY (string_of_list_ascii tok))

type frames = sx list list

(** val push_item : sx -> frames -> frames **)

let push_item x = function
| [] -> (x :: []) :: []
| f :: r -> (x :: f) :: r

(** val flush : text -> frames -> frames **)

let flush tok st =
  match tok with
  | [] -> st
  | _ :: _ -> push_item (atom_of (rev tok)) st

(** val parse_go : text -> text -> frames -> frames **)

let rec parse_go s tok st =
  match s with
  | [] -> flush tok st
  | c :: r ->
    if eqb0 c (Ascii (false, false, false, true, false, true, false, false))
    then parse_go r [] ([] :: (flush tok st))
    else if eqb0 c (Ascii (true, false, false, true, false, true, false,
              false))
         then (match flush tok st with
               | [] -> parse_go r [] []
               | f :: st' -> parse_go r [] (push_item (SL (rev f)) st'))
         else if (||)
                   ((||)
                     ((||)
                       (eqb0 c (Ascii (false, false, false, false, false,
                         true, false, false)))
                       (eqb0 c (Ascii (true, false, false, true, false,
                         false, false, false))))
                     (eqb0 c (Ascii (false, true, false, true, false, false,
                       false, false))))
                   (eqb0 c (Ascii (true, false, true, true, false, false,
                     false, false)))
              then parse_go r [] (flush tok st)
              else parse_go r (c :: tok) st

(** val parse_sx : text -> sx list **)

let parse_sx s =
  match parse_go s [] ([] :: []) with
  | [] ->
    (SY (String ((Ascii (true, false, true, false, true, true, true, false)),
      (String ((Ascii (false, true, true, true, false, true, true, false)),
      (String ((Ascii (false, true, false, false, false, true, true, false)),
      (String ((Ascii (true, false, false, false, false, true, true, false)),
      (String ((Ascii (false, false, true, true, false, true, true, false)),
      (String ((Ascii (true, false, false, false, false, true, true, false)),
      (String ((Ascii (false, true, true, true, false, true, true, false)),
      (String ((Ascii (true, true, false, false, false, true, true, false)),
      (String ((Ascii (true, false, true, false, false, true, true, false)),
      (String ((Ascii (false, false, true, false, false, true, true, false)),
      EmptyString))))))))))))))))))))) :: []
  | f :: l ->
    (match l with
     | [] -> rev f
     | _ :: _ ->
       (SY (String ((Ascii (true, false, true, false, true, true, true,
         false)), (String ((Ascii (false, true, true, true, false, true,
         true, false)), (String ((Ascii (false, true, false, false, false,
         true, true, false)), (String ((Ascii (true, false, false, false,
         false, true, true, false)), (String ((Ascii (false, false, true,
         true, false, true, true, false)), (String ((Ascii (true, false,
         false, false, false, true, true, false)), (String ((Ascii (false,
         true, true, true, false, true, true, false)), (String ((Ascii (true,
         true, false, false, false, true, true, false)), (String ((Ascii
         (true, false, true, false, false, true, true, false)), (String
         ((Ascii (false, false, true, false, false, true, true, false)),
         EmptyString))))))))))))))))))))) :: [])

(** val pos_digits : nat -> z -> text -> text **)

let rec pos_digits fuel n0 acc =
  match fuel with
  | O -> acc
  | S f ->
    let d =
      ascii_of_N
        (N.add (Npos (XO (XO (XO (XO (XI XH))))))
          (Z.to_N (Z.modulo n0 (Zpos (XO (XI (XO XH)))))))
    in
    if Z.ltb n0 (Zpos (XO (XI (XO XH))))
    then d :: acc
    else pos_digits f (Z.div n0 (Zpos (XO (XI (XO XH))))) (d :: acc)

(** val show_Z : z -> text **)

let show_Z z0 =
  let a = Z.abs z0 in
  let ds = pos_digits (S (Z.to_nat (Z.log2 a))) a [] in
  if Z.ltb z0 Z0
  then (Ascii (true, false, true, true, false, true, false, false)) :: ds
  else ds

(** val show_hex : text -> text **)

let show_hex s =
  flat_map (fun c ->
    let n0 = code c in
    (hex_digit (N.div n0 (Npos (XO (XO (XO (XO XH))))))) :: ((hex_digit
                                                               (N.modulo n0
                                                                 (Npos (XO
                                                                 (XO (XO (XO
                                                                 XH))))))) :: []))
    s

(** val show_sx : sx -> text **)

let rec show_sx = function
| SZ z0 -> show_Z z0
| SS s ->
  (Ascii (true, true, false, false, false, true, false,
    false)) :: (show_hex s)
| SY s -> list_ascii_of_string s
| SL l ->
  let go =
    let rec go = function
    | [] -> []
    | y :: r ->
      (match r with
       | [] -> show_sx y
       | _ :: _ ->
         app (show_sx y) ((Ascii (false, false, false, false, false, true,
           false, false)) :: (go r)))
    in go
  in
  (Ascii (false, false, false, true, false, true, false,
  false)) :: (app (go l) ((Ascii (true, false, false, true, false, true,
               false, false)) :: []))

(** val sbool : bool -> sx **)

let sbool b =
  SY
    (if b
     then String ((Ascii (false, false, true, false, true, true, true,
            false)), EmptyString)
     else String ((Ascii (false, true, true, false, false, true, true,
            false)), EmptyString))

(** val stext : string -> text **)

let stext =
  list_ascii_of_string

(** val get_Z : sx -> z **)

let get_Z = function
| SZ z0 -> z0
| _ -> Z0

type errorLevel =
| BreakingError
| InvalidatingError
| StrictWarning
| LooseWarning
| GeneralWarning

type strictnessLevel =
| Strict
| Medium
| Loose

(** val fails : errorLevel -> strictnessLevel -> bool **)

let fails self = function
| Strict -> true
| Medium -> negb (match self with
                  | GeneralWarning -> true
                  | _ -> false)
| Loose ->
  negb
    (match self with
     | LooseWarning -> true
     | GeneralWarning -> true
     | _ -> false)

type elevel =
| EBreaking
| EInvalidating
| EStrictW
| ELooseW
| EGeneralW

type 'a outcome =
| Accepted of 'a * elevel list
| Rejected of elevel list

(** val eE : errorLevel -> elevel **)

let eE = function
| BreakingError -> EBreaking
| InvalidatingError -> EInvalidating
| StrictWarning -> EStrictW
| LooseWarning -> ELooseW
| GeneralWarning -> EGeneralW

(** val gate : strictnessLevel -> 'a1 -> errorLevel list -> 'a1 outcome **)

let gate l a ds =
  if existsb (fun e -> fails e l) ds
  then Rejected (map eE ds)
  else Accepted (a, (map eE ds))

(** val elevel_of_Z : z -> errorLevel **)

let elevel_of_Z = function
| Z0 -> BreakingError
| Zpos p ->
  (match p with
   | XI p0 -> (match p0 with
               | XH -> LooseWarning
               | _ -> GeneralWarning)
   | XO p0 -> (match p0 with
               | XH -> StrictWarning
               | _ -> GeneralWarning)
   | XH -> InvalidatingError)
| Zneg _ -> GeneralWarning

(** val slevel_of_Z : z -> strictnessLevel **)

let slevel_of_Z = function
| Z0 -> Strict
| Zpos p -> (match p with
             | XH -> Medium
             | _ -> Loose)
| Zneg _ -> Loose

(** val run_levels : sx -> sx **)

let run_levels = function
| SL l0 ->
  (match l0 with
   | [] ->
     SY (String ((Ascii (false, true, false, false, false, true, true,
       false)), (String ((Ascii (true, false, false, false, false, true,
       true, false)), (String ((Ascii (false, false, true, false, false,
       true, true, false)), (String ((Ascii (true, false, true, true, false,
       true, false, false)), (String ((Ascii (true, false, false, true,
       false, true, true, false)), (String ((Ascii (false, true, true, true,
       false, true, true, false)), (String ((Ascii (false, false, false,
       false, true, true, true, false)), (String ((Ascii (true, false, true,
       false, true, true, true, false)), (String ((Ascii (false, false, true,
       false, true, true, true, false)), EmptyString))))))))))))))))))
   | s :: l1 ->
     (match s with
      | SY s0 ->
        (match s0 with
         | EmptyString ->
           SY (String ((Ascii (false, true, false, false, false, true, true,
             false)), (String ((Ascii (true, false, false, false, false,
             true, true, false)), (String ((Ascii (false, false, true, false,
             false, true, true, false)), (String ((Ascii (true, false, true,
             true, false, true, false, false)), (String ((Ascii (true, false,
             false, true, false, true, true, false)), (String ((Ascii (false,
             true, true, true, false, true, true, false)), (String ((Ascii
             (false, false, false, false, true, true, true, false)), (String
             ((Ascii (true, false, true, false, true, true, true, false)),
             (String ((Ascii (false, false, true, false, true, true, true,
             false)), EmptyString))))))))))))))))))
         | String (a, s1) ->
           let Ascii (b, b0, b1, b2, b3, b4, b5, b6) = a in
           if b
           then if b0
                then if b1
                     then if b2
                          then SY (String ((Ascii (false, true, false, false,
                                 false, true, true, false)), (String ((Ascii
                                 (true, false, false, false, false, true,
                                 true, false)), (String ((Ascii (false,
                                 false, true, false, false, true, true,
                                 false)), (String ((Ascii (true, false, true,
                                 true, false, true, false, false)), (String
                                 ((Ascii (true, false, false, true, false,
                                 true, true, false)), (String ((Ascii (false,
                                 true, true, true, false, true, true,
                                 false)), (String ((Ascii (false, false,
                                 false, false, true, true, true, false)),
                                 (String ((Ascii (true, false, true, false,
                                 true, true, true, false)), (String ((Ascii
                                 (false, false, true, false, true, true,
                                 true, false)), EmptyString))))))))))))))))))
                          else if b3
                               then SY (String ((Ascii (false, true, false,
                                      false, false, true, true, false)),
                                      (String ((Ascii (true, false, false,
                                      false, false, true, true, false)),
                                      (String ((Ascii (false, false, true,
                                      false, false, true, true, false)),
                                      (String ((Ascii (true, false, true,
                                      true, false, true, false, false)),
                                      (String ((Ascii (true, false, false,
                                      true, false, true, true, false)),
                                      (String ((Ascii (false, true, true,
                                      true, false, true, true, false)),
                                      (String ((Ascii (false, false, false,
                                      false, true, true, true, false)),
                                      (String ((Ascii (true, false, true,
                                      false, true, true, true, false)),
                                      (String ((Ascii (false, false, true,
                                      false, true, true, true, false)),
                                      EmptyString))))))))))))))))))
                               else if b4
                                    then if b5
                                         then if b6
                                              then SY (String ((Ascii (false,
                                                     true, false, false,
                                                     false, true, true,
                                                     false)), (String ((Ascii
                                                     (true, false, false,
                                                     false, false, true,
                                                     true, false)), (String
                                                     ((Ascii (false, false,
                                                     true, false, false,
                                                     true, true, false)),
                                                     (String ((Ascii (true,
                                                     false, true, true,
                                                     false, true, false,
                                                     false)), (String ((Ascii
                                                     (true, false, false,
                                                     true, false, true, true,
                                                     false)), (String ((Ascii
                                                     (false, true, true,
                                                     true, false, true, true,
                                                     false)), (String ((Ascii
                                                     (false, false, false,
                                                     false, true, true, true,
                                                     false)), (String ((Ascii
                                                     (true, false, true,
                                                     false, true, true, true,
                                                     false)), (String ((Ascii
                                                     (false, false, true,
                                                     false, true, true, true,
                                                     false)),
                                                     EmptyString))))))))))))))))))
                                              else (match s1 with
                                                    | EmptyString ->
                                                      SY (String ((Ascii
                                                        (false, true, false,
                                                        false, false, true,
                                                        true, false)),
                                                        (String ((Ascii
                                                        (true, false, false,
                                                        false, false, true,
                                                        true, false)),
                                                        (String ((Ascii
                                                        (false, false, true,
                                                        false, false, true,
                                                        true, false)),
                                                        (String ((Ascii
                                                        (true, false, true,
                                                        true, false, true,
                                                        false, false)),
                                                        (String ((Ascii
                                                        (true, false, false,
                                                        true, false, true,
                                                        true, false)),
                                                        (String ((Ascii
                                                        (false, true, true,
                                                        true, false, true,
                                                        true, false)),
                                                        (String ((Ascii
                                                        (false, false, false,
                                                        false, true, true,
                                                        true, false)),
                                                        (String ((Ascii
                                                        (true, false, true,
                                                        false, true, true,
                                                        true, false)),
                                                        (String ((Ascii
                                                        (false, false, true,
                                                        false, true, true,
                                                        true, false)),
                                                        EmptyString))))))))))))))))))
                                                    | String (a0, s2) ->
                                                      let Ascii (b7, b8, b9,
                                                                 b10, b11,
                                                                 b12, b13, b14) =
                                                        a0
                                                      in
                                                      if b7
                                                      then if b8
                                                           then SY (String
                                                                  ((Ascii
                                                                  (false,
                                                                  true,
                                                                  false,
                                                                  false,
                                                                  false,
                                                                  true, true,
                                                                  false)),
                                                                  (String
                                                                  ((Ascii
                                                                  (true,
                                                                  false,
                                                                  false,
                                                                  false,
                                                                  false,
                                                                  true, true,
                                                                  false)),
                                                                  (String
                                                                  ((Ascii
                                                                  (false,
                                                                  false,
                                                                  true,
                                                                  false,
                                                                  false,
                                                                  true, true,
                                                                  false)),
                                                                  (String
                                                                  ((Ascii
                                                                  (true,
                                                                  false,
                                                                  true, true,
                                                                  false,
                                                                  true,
                                                                  false,
                                                                  false)),
                                                                  (String
                                                                  ((Ascii
                                                                  (true,
                                                                  false,
                                                                  false,
                                                                  true,
                                                                  false,
                                                                  true, true,
                                                                  false)),
                                                                  (String
                                                                  ((Ascii
                                                                  (false,
                                                                  true, true,
                                                                  true,
                                                                  false,
                                                                  true, true,
                                                                  false)),
                                                                  (String
                                                                  ((Ascii
                                                                  (false,
                                                                  false,
                                                                  false,
                                                                  false,
                                                                  true, true,
                                                                  true,
                                                                  false)),
                                                                  (String
                                                                  ((Ascii
                                                                  (true,
                                                                  false,
                                                                  true,
                                                                  false,
                                                                  true, true,
                                                                  true,
                                                                  false)),
                                                                  (String
                                                                  ((Ascii
                                                                  (false,
                                                                  false,
                                                                  true,
                                                                  false,
                                                                  true, true,
                                                                  true,
                                                                  false)),
                                                                  EmptyString))))))))))))))))))
                                                           else if b9
                                                                then 
                                                                  SY (String
                                                                    ((Ascii
                                                                    (false,
                                                                    true,
                                                                    false,
                                                                    false,
                                                                    false,
                                                                    true,
                                                                    true,
                                                                    false)),
                                                                    (String
                                                                    ((Ascii
                                                                    (true,
                                                                    false,
                                                                    false,
                                                                    false,
                                                                    false,
                                                                    true,
                                                                    true,
                                                                    false)),
                                                                    (String
                                                                    ((Ascii
                                                                    (false,
                                                                    false,
                                                                    true,
                                                                    false,
                                                                    false,
                                                                    true,
                                                                    true,
                                                                    false)),
                                                                    (String
                                                                    ((Ascii
                                                                    (true,
                                                                    false,
                                                                    true,
                                                                    true,
                                                                    false,
                                                                    true,
                                                                    false,
                                                                    false)),
                                                                    (String
                                                                    ((Ascii
                                                                    (true,
                                                                    false,
                                                                    false,
                                                                    true,
                                                                    false,
                                                                    true,
                                                                    true,
                                                                    false)),
                                                                    (String
                                                                    ((Ascii
                                                                    (false,
                                                                    true,
                                                                    true,
                                                                    true,
                                                                    false,
                                                                    true,
                                                                    true,
                                                                    false)),
                                                                    (String
                                                                    ((Ascii
                                                                    (false,
                                                                    false,
                                                                    false,
                                                                    false,
                                                                    true,
                                                                    true,
                                                                    true,
                                                                    false)),
                                                                    (String
                                                                    ((Ascii
                                                                    (true,
                                                                    false,
                                                                    true,
                                                                    false,
                                                                    true,
                                                                    true,
                                                                    true,
                                                                    false)),
                                                                    (String
                                                                    ((Ascii
                                                                    (false,
                                                                    false,
                                                                    true,
                                                                    false,
                                                                    true,
                                                                    true,
                                                                    true,
                                                                    false)),
                                                                    EmptyString))))))))))))))))))
                                                                else 
                                                                  if b10
                                                                  then 
                                                                    SY
                                                                    (String
                                                                    ((Ascii
                                                                    (false,
                                                                    true,
                                                                    false,
                                                                    false,
                                                                    false,
                                                                    true,
                                                                    true,
                                                                    false)),
                                                                    (String
                                                                    ((Ascii
                                                                    (true,
                                                                    false,
                                                                    false,
                                                                    false,
                                                                    false,
                                                                    true,
                                                                    true,
                                                                    false)),
                                                                    (String
                                                                    ((Ascii
                                                                    (false,
                                                                    false,
                                                                    true,
                                                                    false,
                                                                    false,
                                                                    true,
                                                                    true,
                                                                    false)),
                                                                    (String
                                                                    ((Ascii
                                                                    (true,
                                                                    false,
                                                                    true,
                                                                    true,
                                                                    false,
                                                                    true,
                                                                    false,
                                                                    false)),
                                                                    (String
                                                                    ((Ascii
                                                                    (true,
                                                                    false,
                                                                    false,
                                                                    true,
                                                                    false,
                                                                    true,
                                                                    true,
                                                                    false)),
                                                                    (String
                                                                    ((Ascii
                                                                    (false,
                                                                    true,
                                                                    true,
                                                                    true,
                                                                    false,
                                                                    true,
                                                                    true,
                                                                    false)),
                                                                    (String
                                                                    ((Ascii
                                                                    (false,
                                                                    false,
                                                                    false,
                                                                    false,
                                                                    true,
                                                                    true,
                                                                    true,
                                                                    false)),
                                                                    (String
                                                                    ((Ascii
                                                                    (true,
                                                                    false,
                                                                    true,
                                                                    false,
                                                                    true,
                                                                    true,
                                                                    true,
                                                                    false)),
                                                                    (String
                                                                    ((Ascii
                                                                    (false,
                                                                    false,
                                                                    true,
                                                                    false,
                                                                    true,
                                                                    true,
                                                                    true,
                                                                    false)),
                                                                    EmptyString))))))))))))))))))
                                                                  else 
                                                                    if b11
                                                                    then 
                                                                    SY
                                                                    (String
                                                                    ((Ascii
                                                                    (false,
                                                                    true,
                                                                    false,
                                                                    false,
                                                                    false,
                                                                    true,
                                                                    true,
                                                                    false)),
                                                                    (String
                                                                    ((Ascii
                                                                    (true,
                                                                    false,
                                                                    false,
                                                                    false,
                                                                    false,
                                                                    true,
                                                                    true,
                                                                    false)),
                                                                    (String
                                                                    ((Ascii
                                                                    (false,
                                                                    false,
                                                                    true,
                                                                    false,
                                                                    false,
                                                                    true,
                                                                    true,
                                                                    false)),
                                                                    (String
                                                                    ((Ascii
                                                                    (true,
                                                                    false,
                                                                    true,
                                                                    true,
                                                                    false,
                                                                    true,
                                                                    false,
                                                                    false)),
                                                                    (String
                                                                    ((Ascii
                                                                    (true,
                                                                    false,
                                                                    false,
                                                                    true,
                                                                    false,
                                                                    true,
                                                                    true,
                                                                    false)),
                                                                    (String
                                                                    ((Ascii
                                                                    (false,
                                                                    true,
                                                                    true,
                                                                    true,
                                                                    false,
                                                                    true,
                                                                    true,
                                                                    false)),
                                                                    (String
                                                                    ((Ascii
                                                                    (false,
                                                                    false,
                                                                    false,
                                                                    false,
                                                                    true,
                                                                    true,
                                                                    true,
                                                                    false)),
                                                                    (String
                                                                    ((Ascii
                                                                    (true,
                                                                    false,
                                                                    true,
                                                                    false,
                                                                    true,
                                                                    true,
                                                                    true,
                                                                    false)),
                                                                    (String
                                                                    ((Ascii
                                                                    (false,
                                                                    false,
                                                                    true,
                                                                    false,
                                                                    true,
                                                                    true,
                                                                    true,
                                                                    false)),
                                                                    EmptyString))))))))))))))))))
                                                                    else 
                                                                    if b12
                                                                    then 
                                                                    if b13
                                                                    then 
                                                                    if b14
                                                                    then 
                                                                    SY
                                                                    (String
                                                                    ((Ascii
                                                                    (false,
                                                                    true,
                                                                    false,
                                                                    false,
                                                                    false,
                                                                    true,
                                                                    true,
                                                                    false)),
                                                                    (String
                                                                    ((Ascii
                                                                    (true,
                                                                    false,
                                                                    false,
                                                                    false,
                                                                    false,
                                                                    true,
                                                                    true,
                                                                    false)),
                                                                    (String
                                                                    ((Ascii
                                                                    (false,
                                                                    false,
                                                                    true,
                                                                    false,
                                                                    false,
                                                                    true,
                                                                    true,
                                                                    false)),
                                                                    (String
                                                                    ((Ascii
                                                                    (true,
                                                                    false,
                                                                    true,
                                                                    true,
                                                                    false,
                                                                    true,
                                                                    false,
                                                                    false)),
                                                                    (String
                                                                    ((Ascii
                                                                    (true,
                                                                    false,
                                                                    false,
                                                                    true,
                                                                    false,
                                                                    true,
                                                                    true,
                                                                    false)),
                                                                    (String
                                                                    ((Ascii
                                                                    (false,
                                                                    true,
                                                                    true,
                                                                    true,
                                                                    false,
                                                                    true,
                                                                    true,
                                                                    false)),
                                                                    (String
                                                                    ((Ascii
                                                                    (false,
                                                                    false,
                                                                    false,
                                                                    false,
                                                                    true,
                                                                    true,
                                                                    true,
                                                                    false)),
                                                                    (String
                                                                    ((Ascii
                                                                    (true,
                                                                    false,
                                                                    true,
                                                                    false,
                                                                    true,
                                                                    true,
                                                                    true,
                                                                    false)),
                                                                    (String
                                                                    ((Ascii
                                                                    (false,
                                                                    false,
                                                                    true,
                                                                    false,
                                                                    true,
                                                                    true,
                                                                    true,
                                                                    false)),
                                                                    EmptyString))))))))))))))))))
                                                                    else 
                                                                    (match s2 with
                                                                    | EmptyString ->
                                                                    SY
                                                                    (String
                                                                    ((Ascii
                                                                    (false,
                                                                    true,
                                                                    false,
                                                                    false,
                                                                    false,
                                                                    true,
                                                                    true,
                                                                    false)),
                                                                    (String
                                                                    ((Ascii
                                                                    (true,
                                                                    false,
                                                                    false,
                                                                    false,
                                                                    false,
                                                                    true,
                                                                    true,
                                                                    false)),
                                                                    (String
                                                                    ((Ascii
                                                                    (false,
                                                                    false,
                                                                    true,
                                                                    false,
                                                                    false,
                                                                    true,
                                                                    true,
                                                                    false)),
                                                                    (String
                                                                    ((Ascii
                                                                    (true,
                                                                    false,
                                                                    true,
                                                                    true,
                                                                    false,
                                                                    true,
                                                                    false,
                                                                    false)),
                                                                    (String
                                                                    ((Ascii
                                                                    (true,
                                                                    false,
                                                                    false,
                                                                    true,
                                                                    false,
                                                                    true,
                                                                    true,
                                                                    false)),
                                                                    (String
                                                                    ((Ascii
                                                                    (false,
                                                                    true,
                                                                    true,
                                                                    true,
                                                                    false,
                                                                    true,
                                                                    true,
                                                                    false)),
                                                                    (String
                                                                    ((Ascii
                                                                    (false,
                                                                    false,
                                                                    false,
                                                                    false,
                                                                    true,
                                                                    true,
                                                                    true,
                                                                    false)),
                                                                    (String
                                                                    ((Ascii
                                                                    (true,
                                                                    false,
                                                                    true,
                                                                    false,
                                                                    true,
                                                                    true,
                                                                    true,
                                                                    false)),
                                                                    (String
                                                                    ((Ascii
                                                                    (false,
                                                                    false,
                                                                    true,
                                                                    false,
                                                                    true,
                                                                    true,
                                                                    true,
                                                                    false)),
                                                                    EmptyString))))))))))))))))))
                                                                    | String (
                                                                    a1, s3) ->
                                                                    let Ascii (
                                                                    b15, b16,
                                                                    b17, b18,
                                                                    b19, b20,
                                                                    b21, b22) =
                                                                    a1
                                                                    in
                                                                    if b15
                                                                    then 
                                                                    SY
                                                                    (String
                                                                    ((Ascii
                                                                    (false,
                                                                    true,
                                                                    false,
                                                                    false,
                                                                    false,
                                                                    true,
                                                                    true,
                                                                    false)),
                                                                    (String
                                                                    ((Ascii
                                                                    (true,
                                                                    false,
                                                                    false,
                                                                    false,
                                                                    false,
                                                                    true,
                                                                    true,
                                                                    false)),
                                                                    (String
                                                                    ((Ascii
                                                                    (false,
                                                                    false,
                                                                    true,
                                                                    false,
                                                                    false,
                                                                    true,
                                                                    true,
                                                                    false)),
                                                                    (String
                                                                    ((Ascii
                                                                    (true,
                                                                    false,
                                                                    true,
                                                                    true,
                                                                    false,
                                                                    true,
                                                                    false,
                                                                    false)),
                                                                    (String
                                                                    ((Ascii
                                                                    (true,
                                                                    false,
                                                                    false,
                                                                    true,
                                                                    false,
                                                                    true,
                                                                    true,
                                                                    false)),
                                                                    (String
                                                                    ((Ascii
                                                                    (false,
                                                                    true,
                                                                    true,
                                                                    true,
                                                                    false,
                                                                    true,
                                                                    true,
                                                                    false)),
                                                                    (String
                                                                    ((Ascii
                                                                    (false,
                                                                    false,
                                                                    false,
                                                                    false,
                                                                    true,
                                                                    true,
                                                                    true,
                                                                    false)),
                                                                    (String
                                                                    ((Ascii
                                                                    (true,
                                                                    false,
                                                                    true,
                                                                    false,
                                                                    true,
                                                                    true,
                                                                    true,
                                                                    false)),
                                                                    (String
                                                                    ((Ascii
                                                                    (false,
                                                                    false,
                                                                    true,
                                                                    false,
                                                                    true,
                                                                    true,
                                                                    true,
                                                                    false)),
                                                                    EmptyString))))))))))))))))))
                                                                    else 
                                                                    if b16
                                                                    then 
                                                                    SY
                                                                    (String
                                                                    ((Ascii
                                                                    (false,
                                                                    true,
                                                                    false,
                                                                    false,
                                                                    false,
                                                                    true,
                                                                    true,
                                                                    false)),
                                                                    (String
                                                                    ((Ascii
                                                                    (true,
                                                                    false,
                                                                    false,
                                                                    false,
                                                                    false,
                                                                    true,
                                                                    true,
                                                                    false)),
                                                                    (String
                                                                    ((Ascii
                                                                    (false,
                                                                    false,
                                                                    true,
                                                                    false,
                                                                    false,
                                                                    true,
                                                                    true,
                                                                    false)),
                                                                    (String
                                                                    ((Ascii
                                                                    (true,
                                                                    false,
                                                                    true,
                                                                    true,
                                                                    false,
                                                                    true,
                                                                    false,
                                                                    false)),
                                                                    (String
                                                                    ((Ascii
                                                                    (true,
                                                                    false,
                                                                    false,
                                                                    true,
                                                                    false,
                                                                    true,
                                                                    true,
                                                                    false)),
                                                                    (String
                                                                    ((Ascii
                                                                    (false,
                                                                    true,
                                                                    true,
                                                                    true,
                                                                    false,
                                                                    true,
                                                                    true,
                                                                    false)),
                                                                    (String
                                                                    ((Ascii
                                                                    (false,
                                                                    false,
                                                                    false,
                                                                    false,
                                                                    true,
                                                                    true,
                                                                    true,
                                                                    false)),
                                                                    (String
                                                                    ((Ascii
                                                                    (true,
                                                                    false,
                                                                    true,
                                                                    false,
                                                                    true,
                                                                    true,
                                                                    true,
                                                                    false)),
                                                                    (String
                                                                    ((Ascii
                                                                    (false,
                                                                    false,
                                                                    true,
                                                                    false,
                                                                    true,
                                                                    true,
                                                                    true,
                                                                    false)),
                                                                    EmptyString))))))))))))))))))
                                                                    else 
                                                                    if b17
                                                                    then 
                                                                    if b18
                                                                    then 
                                                                    SY
                                                                    (String
                                                                    ((Ascii
                                                                    (false,
                                                                    true,
                                                                    false,
                                                                    false,
                                                                    false,
                                                                    true,
                                                                    true,
                                                                    false)),
                                                                    (String
                                                                    ((Ascii
                                                                    (true,
                                                                    false,
                                                                    false,
                                                                    false,
                                                                    false,
                                                                    true,
                                                                    true,
                                                                    false)),
                                                                    (String
                                                                    ((Ascii
                                                                    (false,
                                                                    false,
                                                                    true,
                                                                    false,
                                                                    false,
                                                                    true,
                                                                    true,
                                                                    false)),
                                                                    (String
                                                                    ((Ascii
                                                                    (true,
                                                                    false,
                                                                    true,
                                                                    true,
                                                                    false,
                                                                    true,
                                                                    false,
                                                                    false)),
                                                                    (String
                                                                    ((Ascii
                                                                    (true,
                                                                    false,
                                                                    false,
                                                                    true,
                                                                    false,
                                                                    true,
                                                                    true,
                                                                    false)),
                                                                    (String
                                                                    ((Ascii
                                                                    (false,
                                                                    true,
                                                                    true,
                                                                    true,
                                                                    false,
                                                                    true,
                                                                    true,
                                                                    false)),
                                                                    (String
                                                                    ((Ascii
                                                                    (false,
                                                                    false,
                                                                    false,
                                                                    false,
                                                                    true,
                                                                    true,
                                                                    true,
                                                                    false)),
                                                                    (String
                                                                    ((Ascii
                                                                    (true,
                                                                    false,
                                                                    true,
                                                                    false,
                                                                    true,
                                                                    true,
                                                                    true,
                                                                    false)),
                                                                    (String
                                                                    ((Ascii
                                                                    (false,
                                                                    false,
                                                                    true,
                                                                    false,
                                                                    true,
                                                                    true,
                                                                    true,
                                                                    false)),
                                                                    EmptyString))))))))))))))))))
                                                                    else 
                                                                    if b19
                                                                    then 
                                                                    if b20
                                                                    then 
                                                                    if b21
                                                                    then 
                                                                    if b22
                                                                    then 
                                                                    SY
                                                                    (String
                                                                    ((Ascii
                                                                    (false,
                                                                    true,
                                                                    false,
                                                                    false,
                                                                    false,
                                                                    true,
                                                                    true,
                                                                    false)),
                                                                    (String
                                                                    ((Ascii
                                                                    (true,
                                                                    false,
                                                                    false,
                                                                    false,
                                                                    false,
                                                                    true,
                                                                    true,
                                                                    false)),
                                                                    (String
                                                                    ((Ascii
                                                                    (false,
                                                                    false,
                                                                    true,
                                                                    false,
                                                                    false,
                                                                    true,
                                                                    true,
                                                                    false)),
                                                                    (String
                                                                    ((Ascii
                                                                    (true,
                                                                    false,
                                                                    true,
                                                                    true,
                                                                    false,
                                                                    true,
                                                                    false,
                                                                    false)),
                                                                    (String
                                                                    ((Ascii
                                                                    (true,
                                                                    false,
                                                                    false,
                                                                    true,
                                                                    false,
                                                                    true,
                                                                    true,
                                                                    false)),
                                                                    (String
                                                                    ((Ascii
                                                                    (false,
                                                                    true,
                                                                    true,
                                                                    true,
                                                                    false,
                                                                    true,
                                                                    true,
                                                                    false)),
                                                                    (String
                                                                    ((Ascii
                                                                    (false,
                                                                    false,
                                                                    false,
                                                                    false,
                                                                    true,
                                                                    true,
                                                                    true,
                                                                    false)),
                                                                    (String
                                                                    ((Ascii
                                                                    (true,
                                                                    false,
                                                                    true,
                                                                    false,
                                                                    true,
                                                                    true,
                                                                    true,
                                                                    false)),
                                                                    (String
                                                                    ((Ascii
                                                                    (false,
                                                                    false,
                                                                    true,
                                                                    false,
                                                                    true,
                                                                    true,
                                                                    true,
                                                                    false)),
                                                                    EmptyString))))))))))))))))))
                                                                    else 
                                                                    (match s3 with
                                                                    | EmptyString ->
                                                                    SY
                                                                    (String
                                                                    ((Ascii
                                                                    (false,
                                                                    true,
                                                                    false,
                                                                    false,
                                                                    false,
                                                                    true,
                                                                    true,
                                                                    false)),
                                                                    (String
                                                                    ((Ascii
                                                                    (true,
                                                                    false,
                                                                    false,
                                                                    false,
                                                                    false,
                                                                    true,
                                                                    true,
                                                                    false)),
                                                                    (String
                                                                    ((Ascii
                                                                    (false,
                                                                    false,
                                                                    true,
                                                                    false,
                                                                    false,
                                                                    true,
                                                                    true,
                                                                    false)),
                                                                    (String
                                                                    ((Ascii
                                                                    (true,
                                                                    false,
                                                                    true,
                                                                    true,
                                                                    false,
                                                                    true,
                                                                    false,
                                                                    false)),
                                                                    (String
                                                                    ((Ascii
                                                                    (true,
                                                                    false,
                                                                    false,
                                                                    true,
                                                                    false,
                                                                    true,
                                                                    true,
                                                                    false)),
                                                                    (String
                                                                    ((Ascii
                                                                    (false,
                                                                    true,
                                                                    true,
                                                                    true,
                                                                    false,
                                                                    true,
                                                                    true,
                                                                    false)),
                                                                    (String
                                                                    ((Ascii
                                                                    (false,
                                                                    false,
                                                                    false,
                                                                    false,
                                                                    true,
                                                                    true,
                                                                    true,
                                                                    false)),
                                                                    (String
                                                                    ((Ascii
                                                                    (true,
                                                                    false,
                                                                    true,
                                                                    false,
                                                                    true,
                                                                    true,
                                                                    true,
                                                                    false)),
                                                                    (String
                                                                    ((Ascii
                                                                    (false,
                                                                    false,
                                                                    true,
                                                                    false,
                                                                    true,
                                                                    true,
                                                                    true,
                                                                    false)),
                                                                    EmptyString))))))))))))))))))
                                                                    | String (
                                                                    a2, s4) ->
                                                                    let Ascii (
                                                                    b23, b24,
                                                                    b25, b26,
                                                                    b27, b28,
                                                                    b29, b30) =
                                                                    a2
                                                                    in
                                                                    if b23
                                                                    then 
                                                                    if b24
                                                                    then 
                                                                    SY
                                                                    (String
                                                                    ((Ascii
                                                                    (false,
                                                                    true,
                                                                    false,
                                                                    false,
                                                                    false,
                                                                    true,
                                                                    true,
                                                                    false)),
                                                                    (String
                                                                    ((Ascii
                                                                    (true,
                                                                    false,
                                                                    false,
                                                                    false,
                                                                    false,
                                                                    true,
                                                                    true,
                                                                    false)),
                                                                    (String
                                                                    ((Ascii
                                                                    (false,
                                                                    false,
                                                                    true,
                                                                    false,
                                                                    false,
                                                                    true,
                                                                    true,
                                                                    false)),
                                                                    (String
                                                                    ((Ascii
                                                                    (true,
                                                                    false,
                                                                    true,
                                                                    true,
                                                                    false,
                                                                    true,
                                                                    false,
                                                                    false)),
                                                                    (String
                                                                    ((Ascii
                                                                    (true,
                                                                    false,
                                                                    false,
                                                                    true,
                                                                    false,
                                                                    true,
                                                                    true,
                                                                    false)),
                                                                    (String
                                                                    ((Ascii
                                                                    (false,
                                                                    true,
                                                                    true,
                                                                    true,
                                                                    false,
                                                                    true,
                                                                    true,
                                                                    false)),
                                                                    (String
                                                                    ((Ascii
                                                                    (false,
                                                                    false,
                                                                    false,
                                                                    false,
                                                                    true,
                                                                    true,
                                                                    true,
                                                                    false)),
                                                                    (String
                                                                    ((Ascii
                                                                    (true,
                                                                    false,
                                                                    true,
                                                                    false,
                                                                    true,
                                                                    true,
                                                                    true,
                                                                    false)),
                                                                    (String
                                                                    ((Ascii
                                                                    (false,
                                                                    false,
                                                                    true,
                                                                    false,
                                                                    true,
                                                                    true,
                                                                    true,
                                                                    false)),
                                                                    EmptyString))))))))))))))))))
                                                                    else 
                                                                    if b25
                                                                    then 
                                                                    if b26
                                                                    then 
                                                                    SY
                                                                    (String
                                                                    ((Ascii
                                                                    (false,
                                                                    true,
                                                                    false,
                                                                    false,
                                                                    false,
                                                                    true,
                                                                    true,
                                                                    false)),
                                                                    (String
                                                                    ((Ascii
                                                                    (true,
                                                                    false,
                                                                    false,
                                                                    false,
                                                                    false,
                                                                    true,
                                                                    true,
                                                                    false)),
                                                                    (String
                                                                    ((Ascii
                                                                    (false,
                                                                    false,
                                                                    true,
                                                                    false,
                                                                    false,
                                                                    true,
                                                                    true,
                                                                    false)),
                                                                    (String
                                                                    ((Ascii
                                                                    (true,
                                                                    false,
                                                                    true,
                                                                    true,
                                                                    false,
                                                                    true,
                                                                    false,
                                                                    false)),
                                                                    (String
                                                                    ((Ascii
                                                                    (true,
                                                                    false,
                                                                    false,
                                                                    true,
                                                                    false,
                                                                    true,
                                                                    true,
                                                                    false)),
                                                                    (String
                                                                    ((Ascii
                                                                    (false,
                                                                    true,
                                                                    true,
                                                                    true,
                                                                    false,
                                                                    true,
                                                                    true,
                                                                    false)),
                                                                    (String
                                                                    ((Ascii
                                                                    (false,
                                                                    false,
                                                                    false,
                                                                    false,
                                                                    true,
                                                                    true,
                                                                    true,
                                                                    false)),
                                                                    (String
                                                                    ((Ascii
                                                                    (true,
                                                                    false,
                                                                    true,
                                                                    false,
                                                                    true,
                                                                    true,
                                                                    true,
                                                                    false)),
                                                                    (String
                                                                    ((Ascii
                                                                    (false,
                                                                    false,
                                                                    true,
                                                                    false,
                                                                    true,
                                                                    true,
                                                                    true,
                                                                    false)),
                                                                    EmptyString))))))))))))))))))
                                                                    else 
                                                                    if b27
                                                                    then 
                                                                    SY
                                                                    (String
                                                                    ((Ascii
                                                                    (false,
                                                                    true,
                                                                    false,
                                                                    false,
                                                                    false,
                                                                    true,
                                                                    true,
                                                                    false)),
                                                                    (String
                                                                    ((Ascii
                                                                    (true,
                                                                    false,
                                                                    false,
                                                                    false,
                                                                    false,
                                                                    true,
                                                                    true,
                                                                    false)),
                                                                    (String
                                                                    ((Ascii
                                                                    (false,
                                                                    false,
                                                                    true,
                                                                    false,
                                                                    false,
                                                                    true,
                                                                    true,
                                                                    false)),
                                                                    (String
                                                                    ((Ascii
                                                                    (true,
                                                                    false,
                                                                    true,
                                                                    true,
                                                                    false,
                                                                    true,
                                                                    false,
                                                                    false)),
                                                                    (String
                                                                    ((Ascii
                                                                    (true,
                                                                    false,
                                                                    false,
                                                                    true,
                                                                    false,
                                                                    true,
                                                                    true,
                                                                    false)),
                                                                    (String
                                                                    ((Ascii
                                                                    (false,
                                                                    true,
                                                                    true,
                                                                    true,
                                                                    false,
                                                                    true,
                                                                    true,
                                                                    false)),
                                                                    (String
                                                                    ((Ascii
                                                                    (false,
                                                                    false,
                                                                    false,
                                                                    false,
                                                                    true,
                                                                    true,
                                                                    true,
                                                                    false)),
                                                                    (String
                                                                    ((Ascii
                                                                    (true,
                                                                    false,
                                                                    true,
                                                                    false,
                                                                    true,
                                                                    true,
                                                                    true,
                                                                    false)),
                                                                    (String
                                                                    ((Ascii
                                                                    (false,
                                                                    false,
                                                                    true,
                                                                    false,
                                                                    true,
                                                                    true,
                                                                    true,
                                                                    false)),
                                                                    EmptyString))))))))))))))))))
                                                                    else 
                                                                    if b28
                                                                    then 
                                                                    if b29
                                                                    then 
                                                                    if b30
                                                                    then 
                                                                    SY
                                                                    (String
                                                                    ((Ascii
                                                                    (false,
                                                                    true,
                                                                    false,
                                                                    false,
                                                                    false,
                                                                    true,
                                                                    true,
                                                                    false)),
                                                                    (String
                                                                    ((Ascii
                                                                    (true,
                                                                    false,
                                                                    false,
                                                                    false,
                                                                    false,
                                                                    true,
                                                                    true,
                                                                    false)),
                                                                    (String
                                                                    ((Ascii
                                                                    (false,
                                                                    false,
                                                                    true,
                                                                    false,
                                                                    false,
                                                                    true,
                                                                    true,
                                                                    false)),
                                                                    (String
                                                                    ((Ascii
                                                                    (true,
                                                                    false,
                                                                    true,
                                                                    true,
                                                                    false,
                                                                    true,
                                                                    false,
                                                                    false)),
                                                                    (String
                                                                    ((Ascii
                                                                    (true,
                                                                    false,
                                                                    false,
                                                                    true,
                                                                    false,
                                                                    true,
                                                                    true,
                                                                    false)),
                                                                    (String
                                                                    ((Ascii
                                                                    (false,
                                                                    true,
                                                                    true,
                                                                    true,
                                                                    false,
                                                                    true,
                                                                    true,
                                                                    false)),
                                                                    (String
                                                                    ((Ascii
                                                                    (false,
                                                                    false,
                                                                    false,
                                                                    false,
                                                                    true,
                                                                    true,
                                                                    true,
                                                                    false)),
                                                                    (String
                                                                    ((Ascii
                                                                    (true,
                                                                    false,
                                                                    true,
                                                                    false,
                                                                    true,
                                                                    true,
                                                                    true,
                                                                    false)),
                                                                    (String
                                                                    ((Ascii
                                                                    (false,
                                                                    false,
                                                                    true,
                                                                    false,
                                                                    true,
                                                                    true,
                                                                    true,
                                                                    false)),
                                                                    EmptyString))))))))))))))))))
                                                                    else 
                                                                    (match s4 with
                                                                    | EmptyString ->
                                                                    (match l1 with
                                                                    | [] ->
                                                                    SY
                                                                    (String
                                                                    ((Ascii
                                                                    (false,
                                                                    true,
                                                                    false,
                                                                    false,
                                                                    false,
                                                                    true,
                                                                    true,
                                                                    false)),
                                                                    (String
                                                                    ((Ascii
                                                                    (true,
                                                                    false,
                                                                    false,
                                                                    false,
                                                                    false,
                                                                    true,
                                                                    true,
                                                                    false)),
                                                                    (String
                                                                    ((Ascii
                                                                    (false,
                                                                    false,
                                                                    true,
                                                                    false,
                                                                    false,
                                                                    true,
                                                                    true,
                                                                    false)),
                                                                    (String
                                                                    ((Ascii
                                                                    (true,
                                                                    false,
                                                                    true,
                                                                    true,
                                                                    false,
                                                                    true,
                                                                    false,
                                                                    false)),
                                                                    (String
                                                                    ((Ascii
                                                                    (true,
                                                                    false,
                                                                    false,
                                                                    true,
                                                                    false,
                                                                    true,
                                                                    true,
                                                                    false)),
                                                                    (String
                                                                    ((Ascii
                                                                    (false,
                                                                    true,
                                                                    true,
                                                                    true,
                                                                    false,
                                                                    true,
                                                                    true,
                                                                    false)),
                                                                    (String
                                                                    ((Ascii
                                                                    (false,
                                                                    false,
                                                                    false,
                                                                    false,
                                                                    true,
                                                                    true,
                                                                    true,
                                                                    false)),
                                                                    (String
                                                                    ((Ascii
                                                                    (true,
                                                                    false,
                                                                    true,
                                                                    false,
                                                                    true,
                                                                    true,
                                                                    true,
                                                                    false)),
                                                                    (String
                                                                    ((Ascii
                                                                    (false,
                                                                    false,
                                                                    true,
                                                                    false,
                                                                    true,
                                                                    true,
                                                                    true,
                                                                    false)),
                                                                    EmptyString))))))))))))))))))
                                                                    | s5 :: l2 ->
                                                                    (match s5 with
                                                                    | SZ l ->
                                                                    (match l2 with
                                                                    | [] ->
                                                                    SY
                                                                    (String
                                                                    ((Ascii
                                                                    (false,
                                                                    true,
                                                                    false,
                                                                    false,
                                                                    false,
                                                                    true,
                                                                    true,
                                                                    false)),
                                                                    (String
                                                                    ((Ascii
                                                                    (true,
                                                                    false,
                                                                    false,
                                                                    false,
                                                                    false,
                                                                    true,
                                                                    true,
                                                                    false)),
                                                                    (String
                                                                    ((Ascii
                                                                    (false,
                                                                    false,
                                                                    true,
                                                                    false,
                                                                    false,
                                                                    true,
                                                                    true,
                                                                    false)),
                                                                    (String
                                                                    ((Ascii
                                                                    (true,
                                                                    false,
                                                                    true,
                                                                    true,
                                                                    false,
                                                                    true,
                                                                    false,
                                                                    false)),
                                                                    (String
                                                                    ((Ascii
                                                                    (true,
                                                                    false,
                                                                    false,
                                                                    true,
                                                                    false,
                                                                    true,
                                                                    true,
                                                                    false)),
                                                                    (String
                                                                    ((Ascii
                                                                    (false,
                                                                    true,
                                                                    true,
                                                                    true,
                                                                    false,
                                                                    true,
                                                                    true,
                                                                    false)),
                                                                    (String
                                                                    ((Ascii
                                                                    (false,
                                                                    false,
                                                                    false,
                                                                    false,
                                                                    true,
                                                                    true,
                                                                    true,
                                                                    false)),
                                                                    (String
                                                                    ((Ascii
                                                                    (true,
                                                                    false,
                                                                    true,
                                                                    false,
                                                                    true,
                                                                    true,
                                                                    true,
                                                                    false)),
                                                                    (String
                                                                    ((Ascii
                                                                    (false,
                                                                    false,
                                                                    true,
                                                                    false,
                                                                    true,
                                                                    true,
                                                                    true,
                                                                    false)),
                                                                    EmptyString))))))))))))))))))
                                                                    | s6 :: l3 ->
                                                                    (match s6 with
                                                                    | SL ds ->
                                                                    (match l3 with
                                                                    | [] ->
                                                                    (match 
                                                                    gate
                                                                    (slevel_of_Z
                                                                    l) ()
                                                                    (map
                                                                    (fun d ->
                                                                    elevel_of_Z
                                                                    (get_Z d))
                                                                    ds) with
                                                                    | Accepted (
                                                                    _, _) ->
                                                                    SY
                                                                    (String
                                                                    ((Ascii
                                                                    (true,
                                                                    false,
                                                                    false,
                                                                    false,
                                                                    false,
                                                                    true,
                                                                    true,
                                                                    false)),
                                                                    (String
                                                                    ((Ascii
                                                                    (true,
                                                                    true,
                                                                    false,
                                                                    false,
                                                                    false,
                                                                    true,
                                                                    true,
                                                                    false)),
                                                                    (String
                                                                    ((Ascii
                                                                    (true,
                                                                    true,
                                                                    false,
                                                                    false,
                                                                    false,
                                                                    true,
                                                                    true,
                                                                    false)),
                                                                    EmptyString))))))
                                                                    | Rejected _ ->
                                                                    SY
                                                                    (String
                                                                    ((Ascii
                                                                    (false,
                                                                    true,
                                                                    false,
                                                                    false,
                                                                    true,
                                                                    true,
                                                                    true,
                                                                    false)),
                                                                    (String
                                                                    ((Ascii
                                                                    (true,
                                                                    false,
                                                                    true,
                                                                    false,
                                                                    false,
                                                                    true,
                                                                    true,
                                                                    false)),
                                                                    (String
                                                                    ((Ascii
                                                                    (false,
                                                                    true,
                                                                    false,
                                                                    true,
                                                                    false,
                                                                    true,
                                                                    true,
                                                                    false)),
                                                                    EmptyString)))))))
                                                                    | _ :: _ ->
                                                                    SY
                                                                    (String
                                                                    ((Ascii
                                                                    (false,
                                                                    true,
                                                                    false,
                                                                    false,
                                                                    false,
                                                                    true,
                                                                    true,
                                                                    false)),
                                                                    (String
                                                                    ((Ascii
                                                                    (true,
                                                                    false,
                                                                    false,
                                                                    false,
                                                                    false,
                                                                    true,
                                                                    true,
                                                                    false)),
                                                                    (String
                                                                    ((Ascii
                                                                    (false,
                                                                    false,
                                                                    true,
                                                                    false,
                                                                    false,
                                                                    true,
                                                                    true,
                                                                    false)),
                                                                    (String
                                                                    ((Ascii
                                                                    (true,
                                                                    false,
                                                                    true,
                                                                    true,
                                                                    false,
                                                                    true,
                                                                    false,
                                                                    false)),
                                                                    (String
                                                                    ((Ascii
                                                                    (true,
                                                                    false,
                                                                    false,
                                                                    true,
                                                                    false,
                                                                    true,
                                                                    true,
                                                                    false)),
                                                                    (String
                                                                    ((Ascii
                                                                    (false,
                                                                    true,
                                                                    true,
                                                                    true,
                                                                    false,
                                                                    true,
                                                                    true,
                                                                    false)),
                                                                    (String
                                                                    ((Ascii
                                                                    (false,
                                                                    false,
                                                                    false,
                                                                    false,
                                                                    true,
                                                                    true,
                                                                    true,
                                                                    false)),
                                                                    (String
                                                                    ((Ascii
                                                                    (true,
                                                                    false,
                                                                    true,
                                                                    false,
                                                                    true,
                                                                    true,
                                                                    true,
                                                                    false)),
                                                                    (String
                                                                    ((Ascii
                                                                    (false,
                                                                    false,
                                                                    true,
                                                                    false,
                                                                    true,
                                                                    true,
                                                                    true,
                                                                    false)),
                                                                    EmptyString)))))))))))))))))))
                                                                    | _ ->
                                                                    SY
                                                                    (String
                                                                    ((Ascii
                                                                    (false,
                                                                    true,
                                                                    false,
                                                                    false,
                                                                    false,
                                                                    true,
                                                                    true,
                                                                    false)),
                                                                    (String
                                                                    ((Ascii
                                                                    (true,
                                                                    false,
                                                                    false,
                                                                    false,
                                                                    false,
                                                                    true,
                                                                    true,
                                                                    false)),
                                                                    (String
                                                                    ((Ascii
                                                                    (false,
                                                                    false,
                                                                    true,
                                                                    false,
                                                                    false,
                                                                    true,
                                                                    true,
                                                                    false)),
                                                                    (String
                                                                    ((Ascii
                                                                    (true,
                                                                    false,
                                                                    true,
                                                                    true,
                                                                    false,
                                                                    true,
                                                                    false,
                                                                    false)),
                                                                    (String
                                                                    ((Ascii
                                                                    (true,
                                                                    false,
                                                                    false,
                                                                    true,
                                                                    false,
                                                                    true,
                                                                    true,
                                                                    false)),
                                                                    (String
                                                                    ((Ascii
                                                                    (false,
                                                                    true,
                                                                    true,
                                                                    true,
                                                                    false,
                                                                    true,
                                                                    true,
                                                                    false)),
                                                                    (String
                                                                    ((Ascii
                                                                    (false,
                                                                    false,
                                                                    false,
                                                                    false,
                                                                    true,
                                                                    true,
                                                                    true,
                                                                    false)),
                                                                    (String
                                                                    ((Ascii
                                                                    (true,
                                                                    false,
                                                                    true,
                                                                    false,
                                                                    true,
                                                                    true,
                                                                    true,
                                                                    false)),
                                                                    (String
                                                                    ((Ascii
                                                                    (false,
                                                                    false,
                                                                    true,
                                                                    false,
                                                                    true,
                                                                    true,
                                                                    true,
                                                                    false)),
                                                                    EmptyString))))))))))))))))))))
                                                                    | _ ->
                                                                    SY
                                                                    (String
                                                                    ((Ascii
                                                                    (false,
                                                                    true,
                                                                    false,
                                                                    false,
                                                                    false,
                                                                    true,
                                                                    true,
                                                                    false)),
                                                                    (String
                                                                    ((Ascii
                                                                    (true,
                                                                    false,
                                                                    false,
                                                                    false,
                                                                    false,
                                                                    true,
                                                                    true,
                                                                    false)),
                                                                    (String
                                                                    ((Ascii
                                                                    (false,
                                                                    false,
                                                                    true,
                                                                    false,
                                                                    false,
                                                                    true,
                                                                    true,
                                                                    false)),
                                                                    (String
                                                                    ((Ascii
                                                                    (true,
                                                                    false,
                                                                    true,
                                                                    true,
                                                                    false,
                                                                    true,
                                                                    false,
                                                                    false)),
                                                                    (String
                                                                    ((Ascii
                                                                    (true,
                                                                    false,
                                                                    false,
                                                                    true,
                                                                    false,
                                                                    true,
                                                                    true,
                                                                    false)),
                                                                    (String
                                                                    ((Ascii
                                                                    (false,
                                                                    true,
                                                                    true,
                                                                    true,
                                                                    false,
                                                                    true,
                                                                    true,
                                                                    false)),
                                                                    (String
                                                                    ((Ascii
                                                                    (false,
                                                                    false,
                                                                    false,
                                                                    false,
                                                                    true,
                                                                    true,
                                                                    true,
                                                                    false)),
                                                                    (String
                                                                    ((Ascii
                                                                    (true,
                                                                    false,
                                                                    true,
                                                                    false,
                                                                    true,
                                                                    true,
                                                                    true,
                                                                    false)),
                                                                    (String
                                                                    ((Ascii
                                                                    (false,
                                                                    false,
                                                                    true,
                                                                    false,
                                                                    true,
                                                                    true,
                                                                    true,
                                                                    false)),
                                                                    EmptyString))))))))))))))))))))
                                                                    | String (
                                                                    _, _) ->
                                                                    SY
                                                                    (String
                                                                    ((Ascii
                                                                    (false,
                                                                    true,
                                                                    false,
                                                                    false,
                                                                    false,
                                                                    true,
                                                                    true,
                                                                    false)),
                                                                    (String
                                                                    ((Ascii
                                                                    (true,
                                                                    false,
                                                                    false,
                                                                    false,
                                                                    false,
                                                                    true,
                                                                    true,
                                                                    false)),
                                                                    (String
                                                                    ((Ascii
                                                                    (false,
                                                                    false,
                                                                    true,
                                                                    false,
                                                                    false,
                                                                    true,
                                                                    true,
                                                                    false)),
                                                                    (String
                                                                    ((Ascii
                                                                    (true,
                                                                    false,
                                                                    true,
                                                                    true,
                                                                    false,
                                                                    true,
                                                                    false,
                                                                    false)),
                                                                    (String
                                                                    ((Ascii
                                                                    (true,
                                                                    false,
                                                                    false,
                                                                    true,
                                                                    false,
                                                                    true,
                                                                    true,
                                                                    false)),
                                                                    (String
                                                                    ((Ascii
                                                                    (false,
                                                                    true,
                                                                    true,
                                                                    true,
                                                                    false,
                                                                    true,
                                                                    true,
                                                                    false)),
                                                                    (String
                                                                    ((Ascii
                                                                    (false,
                                                                    false,
                                                                    false,
                                                                    false,
                                                                    true,
                                                                    true,
                                                                    true,
                                                                    false)),
                                                                    (String
                                                                    ((Ascii
                                                                    (true,
                                                                    false,
                                                                    true,
                                                                    false,
                                                                    true,
                                                                    true,
                                                                    true,
                                                                    false)),
                                                                    (String
                                                                    ((Ascii
                                                                    (false,
                                                                    false,
                                                                    true,
                                                                    false,
                                                                    true,
                                                                    true,
                                                                    true,
                                                                    false)),
                                                                    EmptyString)))))))))))))))))))
                                                                    else 
                                                                    SY
                                                                    (String
                                                                    ((Ascii
                                                                    (false,
                                                                    true,
                                                                    false,
                                                                    false,
                                                                    false,
                                                                    true,
                                                                    true,
                                                                    false)),
                                                                    (String
                                                                    ((Ascii
                                                                    (true,
                                                                    false,
                                                                    false,
                                                                    false,
                                                                    false,
                                                                    true,
                                                                    true,
                                                                    false)),
                                                                    (String
                                                                    ((Ascii
                                                                    (false,
                                                                    false,
                                                                    true,
                                                                    false,
                                                                    false,
                                                                    true,
                                                                    true,
                                                                    false)),
                                                                    (String
                                                                    ((Ascii
                                                                    (true,
                                                                    false,
                                                                    true,
                                                                    true,
                                                                    false,
                                                                    true,
                                                                    false,
                                                                    false)),
                                                                    (String
                                                                    ((Ascii
                                                                    (true,
                                                                    false,
                                                                    false,
                                                                    true,
                                                                    false,
                                                                    true,
                                                                    true,
                                                                    false)),
                                                                    (String
                                                                    ((Ascii
                                                                    (false,
                                                                    true,
                                                                    true,
                                                                    true,
                                                                    false,
                                                                    true,
                                                                    true,
                                                                    false)),
                                                                    (String
                                                                    ((Ascii
                                                                    (false,
                                                                    false,
                                                                    false,
                                                                    false,
                                                                    true,
                                                                    true,
                                                                    true,
                                                                    false)),
                                                                    (String
                                                                    ((Ascii
                                                                    (true,
                                                                    false,
                                                                    true,
                                                                    false,
                                                                    true,
                                                                    true,
                                                                    true,
                                                                    false)),
                                                                    (String
                                                                    ((Ascii
                                                                    (false,
                                                                    false,
                                                                    true,
                                                                    false,
                                                                    true,
                                                                    true,
                                                                    true,
                                                                    false)),
                                                                    EmptyString))))))))))))))))))
                                                                    else 
                                                                    SY
                                                                    (String
                                                                    ((Ascii
                                                                    (false,
                                                                    true,
                                                                    false,
                                                                    false,
                                                                    false,
                                                                    true,
                                                                    true,
                                                                    false)),
                                                                    (String
                                                                    ((Ascii
                                                                    (true,
                                                                    false,
                                                                    false,
                                                                    false,
                                                                    false,
                                                                    true,
                                                                    true,
                                                                    false)),
                                                                    (String
                                                                    ((Ascii
                                                                    (false,
                                                                    false,
                                                                    true,
                                                                    false,
                                                                    false,
                                                                    true,
                                                                    true,
                                                                    false)),
                                                                    (String
                                                                    ((Ascii
                                                                    (true,
                                                                    false,
                                                                    true,
                                                                    true,
                                                                    false,
                                                                    true,
                                                                    false,
                                                                    false)),
                                                                    (String
                                                                    ((Ascii
                                                                    (true,
                                                                    false,
                                                                    false,
                                                                    true,
                                                                    false,
                                                                    true,
                                                                    true,
                                                                    false)),
                                                                    (String
                                                                    ((Ascii
                                                                    (false,
                                                                    true,
                                                                    true,
                                                                    true,
                                                                    false,
                                                                    true,
                                                                    true,
                                                                    false)),
                                                                    (String
                                                                    ((Ascii
                                                                    (false,
                                                                    false,
                                                                    false,
                                                                    false,
                                                                    true,
                                                                    true,
                                                                    true,
                                                                    false)),
                                                                    (String
                                                                    ((Ascii
                                                                    (true,
                                                                    false,
                                                                    true,
                                                                    false,
                                                                    true,
                                                                    true,
                                                                    true,
                                                                    false)),
                                                                    (String
                                                                    ((Ascii
                                                                    (false,
                                                                    false,
                                                                    true,
                                                                    false,
                                                                    true,
                                                                    true,
                                                                    true,
                                                                    false)),
                                                                    EmptyString))))))))))))))))))
                                                                    else 
                                                                    SY
                                                                    (String
                                                                    ((Ascii
                                                                    (false,
                                                                    true,
                                                                    false,
                                                                    false,
                                                                    false,
                                                                    true,
                                                                    true,
                                                                    false)),
                                                                    (String
                                                                    ((Ascii
                                                                    (true,
                                                                    false,
                                                                    false,
                                                                    false,
                                                                    false,
                                                                    true,
                                                                    true,
                                                                    false)),
                                                                    (String
                                                                    ((Ascii
                                                                    (false,
                                                                    false,
                                                                    true,
                                                                    false,
                                                                    false,
                                                                    true,
                                                                    true,
                                                                    false)),
                                                                    (String
                                                                    ((Ascii
                                                                    (true,
                                                                    false,
                                                                    true,
                                                                    true,
                                                                    false,
                                                                    true,
                                                                    false,
                                                                    false)),
                                                                    (String
                                                                    ((Ascii
                                                                    (true,
                                                                    false,
                                                                    false,
                                                                    true,
                                                                    false,
                                                                    true,
                                                                    true,
                                                                    false)),
                                                                    (String
                                                                    ((Ascii
                                                                    (false,
                                                                    true,
                                                                    true,
                                                                    true,
                                                                    false,
                                                                    true,
                                                                    true,
                                                                    false)),
                                                                    (String
                                                                    ((Ascii
                                                                    (false,
                                                                    false,
                                                                    false,
                                                                    false,
                                                                    true,
                                                                    true,
                                                                    true,
                                                                    false)),
                                                                    (String
                                                                    ((Ascii
                                                                    (true,
                                                                    false,
                                                                    true,
                                                                    false,
                                                                    true,
                                                                    true,
                                                                    true,
                                                                    false)),
                                                                    (String
                                                                    ((Ascii
                                                                    (false,
                                                                    false,
                                                                    true,
                                                                    false,
                                                                    true,
                                                                    true,
                                                                    true,
                                                                    false)),
                                                                    EmptyString))))))))))))))))))
                                                                    else 
                                                                    SY
                                                                    (String
                                                                    ((Ascii
                                                                    (false,
                                                                    true,
                                                                    false,
                                                                    false,
                                                                    false,
                                                                    true,
                                                                    true,
                                                                    false)),
                                                                    (String
                                                                    ((Ascii
                                                                    (true,
                                                                    false,
                                                                    false,
                                                                    false,
                                                                    false,
                                                                    true,
                                                                    true,
                                                                    false)),
                                                                    (String
                                                                    ((Ascii
                                                                    (false,
                                                                    false,
                                                                    true,
                                                                    false,
                                                                    false,
                                                                    true,
                                                                    true,
                                                                    false)),
                                                                    (String
                                                                    ((Ascii
                                                                    (true,
                                                                    false,
                                                                    true,
                                                                    true,
                                                                    false,
                                                                    true,
                                                                    false,
                                                                    false)),
                                                                    (String
                                                                    ((Ascii
                                                                    (true,
                                                                    false,
                                                                    false,
                                                                    true,
                                                                    false,
                                                                    true,
                                                                    true,
                                                                    false)),
                                                                    (String
                                                                    ((Ascii
                                                                    (false,
                                                                    true,
                                                                    true,
                                                                    true,
                                                                    false,
                                                                    true,
                                                                    true,
                                                                    false)),
                                                                    (String
                                                                    ((Ascii
                                                                    (false,
                                                                    false,
                                                                    false,
                                                                    false,
                                                                    true,
                                                                    true,
                                                                    true,
                                                                    false)),
                                                                    (String
                                                                    ((Ascii
                                                                    (true,
                                                                    false,
                                                                    true,
                                                                    false,
                                                                    true,
                                                                    true,
                                                                    true,
                                                                    false)),
                                                                    (String
                                                                    ((Ascii
                                                                    (false,
                                                                    false,
                                                                    true,
                                                                    false,
                                                                    true,
                                                                    true,
                                                                    true,
                                                                    false)),
                                                                    EmptyString)))))))))))))))))))
                                                                    else 
                                                                    SY
                                                                    (String
                                                                    ((Ascii
                                                                    (false,
                                                                    true,
                                                                    false,
                                                                    false,
                                                                    false,
                                                                    true,
                                                                    true,
                                                                    false)),
                                                                    (String
                                                                    ((Ascii
                                                                    (true,
                                                                    false,
                                                                    false,
                                                                    false,
                                                                    false,
                                                                    true,
                                                                    true,
                                                                    false)),
                                                                    (String
                                                                    ((Ascii
                                                                    (false,
                                                                    false,
                                                                    true,
                                                                    false,
                                                                    false,
                                                                    true,
                                                                    true,
                                                                    false)),
                                                                    (String
                                                                    ((Ascii
                                                                    (true,
                                                                    false,
                                                                    true,
                                                                    true,
                                                                    false,
                                                                    true,
                                                                    false,
                                                                    false)),
                                                                    (String
                                                                    ((Ascii
                                                                    (true,
                                                                    false,
                                                                    false,
                                                                    true,
                                                                    false,
                                                                    true,
                                                                    true,
                                                                    false)),
                                                                    (String
                                                                    ((Ascii
                                                                    (false,
                                                                    true,
                                                                    true,
                                                                    true,
                                                                    false,
                                                                    true,
                                                                    true,
                                                                    false)),
                                                                    (String
                                                                    ((Ascii
                                                                    (false,
                                                                    false,
                                                                    false,
                                                                    false,
                                                                    true,
                                                                    true,
                                                                    true,
                                                                    false)),
                                                                    (String
                                                                    ((Ascii
                                                                    (true,
                                                                    false,
                                                                    true,
                                                                    false,
                                                                    true,
                                                                    true,
                                                                    true,
                                                                    false)),
                                                                    (String
                                                                    ((Ascii
                                                                    (false,
                                                                    false,
                                                                    true,
                                                                    false,
                                                                    true,
                                                                    true,
                                                                    true,
                                                                    false)),
                                                                    EmptyString))))))))))))))))))
                                                                    else 
                                                                    SY
                                                                    (String
                                                                    ((Ascii
                                                                    (false,
                                                                    true,
                                                                    false,
                                                                    false,
                                                                    false,
                                                                    true,
                                                                    true,
                                                                    false)),
                                                                    (String
                                                                    ((Ascii
                                                                    (true,
                                                                    false,
                                                                    false,
                                                                    false,
                                                                    false,
                                                                    true,
                                                                    true,
                                                                    false)),
                                                                    (String
                                                                    ((Ascii
                                                                    (false,
                                                                    false,
                                                                    true,
                                                                    false,
                                                                    false,
                                                                    true,
                                                                    true,
                                                                    false)),
                                                                    (String
                                                                    ((Ascii
                                                                    (true,
                                                                    false,
                                                                    true,
                                                                    true,
                                                                    false,
                                                                    true,
                                                                    false,
                                                                    false)),
                                                                    (String
                                                                    ((Ascii
                                                                    (true,
                                                                    false,
                                                                    false,
                                                                    true,
                                                                    false,
                                                                    true,
                                                                    true,
                                                                    false)),
                                                                    (String
                                                                    ((Ascii
                                                                    (false,
                                                                    true,
                                                                    true,
                                                                    true,
                                                                    false,
                                                                    true,
                                                                    true,
                                                                    false)),
                                                                    (String
                                                                    ((Ascii
                                                                    (false,
                                                                    false,
                                                                    false,
                                                                    false,
                                                                    true,
                                                                    true,
                                                                    true,
                                                                    false)),
                                                                    (String
                                                                    ((Ascii
                                                                    (true,
                                                                    false,
                                                                    true,
                                                                    false,
                                                                    true,
                                                                    true,
                                                                    true,
                                                                    false)),
                                                                    (String
                                                                    ((Ascii
                                                                    (false,
                                                                    false,
                                                                    true,
                                                                    false,
                                                                    true,
                                                                    true,
                                                                    true,
                                                                    false)),
                                                                    EmptyString))))))))))))))))))
                                                                    else 
                                                                    SY
                                                                    (String
                                                                    ((Ascii
                                                                    (false,
                                                                    true,
                                                                    false,
                                                                    false,
                                                                    false,
                                                                    true,
                                                                    true,
                                                                    false)),
                                                                    (String
                                                                    ((Ascii
                                                                    (true,
                                                                    false,
                                                                    false,
                                                                    false,
                                                                    false,
                                                                    true,
                                                                    true,
                                                                    false)),
                                                                    (String
                                                                    ((Ascii
                                                                    (false,
                                                                    false,
                                                                    true,
                                                                    false,
                                                                    false,
                                                                    true,
                                                                    true,
                                                                    false)),
                                                                    (String
                                                                    ((Ascii
                                                                    (true,
                                                                    false,
                                                                    true,
                                                                    true,
                                                                    false,
                                                                    true,
                                                                    false,
                                                                    false)),
                                                                    (String
                                                                    ((Ascii
                                                                    (true,
                                                                    false,
                                                                    false,
                                                                    true,
                                                                    false,
                                                                    true,
                                                                    true,
                                                                    false)),
                                                                    (String
                                                                    ((Ascii
                                                                    (false,
                                                                    true,
                                                                    true,
                                                                    true,
                                                                    false,
                                                                    true,
                                                                    true,
                                                                    false)),
                                                                    (String
                                                                    ((Ascii
                                                                    (false,
                                                                    false,
                                                                    false,
                                                                    false,
                                                                    true,
                                                                    true,
                                                                    true,
                                                                    false)),
                                                                    (String
                                                                    ((Ascii
                                                                    (true,
                                                                    false,
                                                                    true,
                                                                    false,
                                                                    true,
                                                                    true,
                                                                    true,
                                                                    false)),
                                                                    (String
                                                                    ((Ascii
                                                                    (false,
                                                                    false,
                                                                    true,
                                                                    false,
                                                                    true,
                                                                    true,
                                                                    true,
                                                                    false)),
                                                                    EmptyString))))))))))))))))))
                                                                    else 
                                                                    SY
                                                                    (String
                                                                    ((Ascii
                                                                    (false,
                                                                    true,
                                                                    false,
                                                                    false,
                                                                    false,
                                                                    true,
                                                                    true,
                                                                    false)),
                                                                    (String
                                                                    ((Ascii
                                                                    (true,
                                                                    false,
                                                                    false,
                                                                    false,
                                                                    false,
                                                                    true,
                                                                    true,
                                                                    false)),
                                                                    (String
                                                                    ((Ascii
                                                                    (false,
                                                                    false,
                                                                    true,
                                                                    false,
                                                                    false,
                                                                    true,
                                                                    true,
                                                                    false)),
                                                                    (String
                                                                    ((Ascii
                                                                    (true,
                                                                    false,
                                                                    true,
                                                                    true,
                                                                    false,
                                                                    true,
                                                                    false,
                                                                    false)),
                                                                    (String
                                                                    ((Ascii
                                                                    (true,
                                                                    false,
                                                                    false,
                                                                    true,
                                                                    false,
                                                                    true,
                                                                    true,
                                                                    false)),
                                                                    (String
                                                                    ((Ascii
                                                                    (false,
                                                                    true,
                                                                    true,
                                                                    true,
                                                                    false,
                                                                    true,
                                                                    true,
                                                                    false)),
                                                                    (String
                                                                    ((Ascii
                                                                    (false,
                                                                    false,
                                                                    false,
                                                                    false,
                                                                    true,
                                                                    true,
                                                                    true,
                                                                    false)),
                                                                    (String
                                                                    ((Ascii
                                                                    (true,
                                                                    false,
                                                                    true,
                                                                    false,
                                                                    true,
                                                                    true,
                                                                    true,
                                                                    false)),
                                                                    (String
                                                                    ((Ascii
                                                                    (false,
                                                                    false,
                                                                    true,
                                                                    false,
                                                                    true,
                                                                    true,
                                                                    true,
                                                                    false)),
                                                                    EmptyString)))))))))))))))))))
                                                                    else 
                                                                    SY
                                                                    (String
                                                                    ((Ascii
                                                                    (false,
                                                                    true,
                                                                    false,
                                                                    false,
                                                                    false,
                                                                    true,
                                                                    true,
                                                                    false)),
                                                                    (String
                                                                    ((Ascii
                                                                    (true,
                                                                    false,
                                                                    false,
                                                                    false,
                                                                    false,
                                                                    true,
                                                                    true,
                                                                    false)),
                                                                    (String
                                                                    ((Ascii
                                                                    (false,
                                                                    false,
                                                                    true,
                                                                    false,
                                                                    false,
                                                                    true,
                                                                    true,
                                                                    false)),
                                                                    (String
                                                                    ((Ascii
                                                                    (true,
                                                                    false,
                                                                    true,
                                                                    true,
                                                                    false,
                                                                    true,
                                                                    false,
                                                                    false)),
                                                                    (String
                                                                    ((Ascii
                                                                    (true,
                                                                    false,
                                                                    false,
                                                                    true,
                                                                    false,
                                                                    true,
                                                                    true,
                                                                    false)),
                                                                    (String
                                                                    ((Ascii
                                                                    (false,
                                                                    true,
                                                                    true,
                                                                    true,
                                                                    false,
                                                                    true,
                                                                    true,
                                                                    false)),
                                                                    (String
                                                                    ((Ascii
                                                                    (false,
                                                                    false,
                                                                    false,
                                                                    false,
                                                                    true,
                                                                    true,
                                                                    true,
                                                                    false)),
                                                                    (String
                                                                    ((Ascii
                                                                    (true,
                                                                    false,
                                                                    true,
                                                                    false,
                                                                    true,
                                                                    true,
                                                                    true,
                                                                    false)),
                                                                    (String
                                                                    ((Ascii
                                                                    (false,
                                                                    false,
                                                                    true,
                                                                    false,
                                                                    true,
                                                                    true,
                                                                    true,
                                                                    false)),
                                                                    EmptyString))))))))))))))))))
                                                                    else 
                                                                    SY
                                                                    (String
                                                                    ((Ascii
                                                                    (false,
                                                                    true,
                                                                    false,
                                                                    false,
                                                                    false,
                                                                    true,
                                                                    true,
                                                                    false)),
                                                                    (String
                                                                    ((Ascii
                                                                    (true,
                                                                    false,
                                                                    false,
                                                                    false,
                                                                    false,
                                                                    true,
                                                                    true,
                                                                    false)),
                                                                    (String
                                                                    ((Ascii
                                                                    (false,
                                                                    false,
                                                                    true,
                                                                    false,
                                                                    false,
                                                                    true,
                                                                    true,
                                                                    false)),
                                                                    (String
                                                                    ((Ascii
                                                                    (true,
                                                                    false,
                                                                    true,
                                                                    true,
                                                                    false,
                                                                    true,
                                                                    false,
                                                                    false)),
                                                                    (String
                                                                    ((Ascii
                                                                    (true,
                                                                    false,
                                                                    false,
                                                                    true,
                                                                    false,
                                                                    true,
                                                                    true,
                                                                    false)),
                                                                    (String
                                                                    ((Ascii
                                                                    (false,
                                                                    true,
                                                                    true,
                                                                    true,
                                                                    false,
                                                                    true,
                                                                    true,
                                                                    false)),
                                                                    (String
                                                                    ((Ascii
                                                                    (false,
                                                                    false,
                                                                    false,
                                                                    false,
                                                                    true,
                                                                    true,
                                                                    true,
                                                                    false)),
                                                                    (String
                                                                    ((Ascii
                                                                    (true,
                                                                    false,
                                                                    true,
                                                                    false,
                                                                    true,
                                                                    true,
                                                                    true,
                                                                    false)),
                                                                    (String
                                                                    ((Ascii
                                                                    (false,
                                                                    false,
                                                                    true,
                                                                    false,
                                                                    true,
                                                                    true,
                                                                    true,
                                                                    false)),
                                                                    EmptyString))))))))))))))))))
                                                      else SY (String ((Ascii
                                                             (false, true,
                                                             false, false,
                                                             false, true,
                                                             true, false)),
                                                             (String ((Ascii
                                                             (true, false,
                                                             false, false,
                                                             false, true,
                                                             true, false)),
                                                             (String ((Ascii
                                                             (false, false,
                                                             true, false,
                                                             false, true,
                                                             true, false)),
                                                             (String ((Ascii
                                                             (true, false,
                                                             true, true,
                                                             false, true,
                                                             false, false)),
                                                             (String ((Ascii
                                                             (true, false,
                                                             false, true,
                                                             false, true,
                                                             true, false)),
                                                             (String ((Ascii
                                                             (false, true,
                                                             true, true,
                                                             false, true,
                                                             true, false)),
                                                             (String ((Ascii
                                                             (false, false,
                                                             false, false,
                                                             true, true,
                                                             true, false)),
                                                             (String ((Ascii
                                                             (true, false,
                                                             true, false,
                                                             true, true,
                                                             true, false)),
                                                             (String ((Ascii
                                                             (false, false,
                                                             true, false,
                                                             true, true,
                                                             true, false)),
                                                             EmptyString)))))))))))))))))))
                                         else SY (String ((Ascii (false,
                                                true, false, false, false,
                                                true, true, false)), (String
                                                ((Ascii (true, false, false,
                                                false, false, true, true,
                                                false)), (String ((Ascii
                                                (false, false, true, false,
                                                false, true, true, false)),
                                                (String ((Ascii (true, false,
                                                true, true, false, true,
                                                false, false)), (String
                                                ((Ascii (true, false, false,
                                                true, false, true, true,
                                                false)), (String ((Ascii
                                                (false, true, true, true,
                                                false, true, true, false)),
                                                (String ((Ascii (false,
                                                false, false, false, true,
                                                true, true, false)), (String
                                                ((Ascii (true, false, true,
                                                false, true, true, true,
                                                false)), (String ((Ascii
                                                (false, false, true, false,
                                                true, true, true, false)),
                                                EmptyString))))))))))))))))))
                                    else SY (String ((Ascii (false, true,
                                           false, false, false, true, true,
                                           false)), (String ((Ascii (true,
                                           false, false, false, false, true,
                                           true, false)), (String ((Ascii
                                           (false, false, true, false, false,
                                           true, true, false)), (String
                                           ((Ascii (true, false, true, true,
                                           false, true, false, false)),
                                           (String ((Ascii (true, false,
                                           false, true, false, true, true,
                                           false)), (String ((Ascii (false,
                                           true, true, true, false, true,
                                           true, false)), (String ((Ascii
                                           (false, false, false, false, true,
                                           true, true, false)), (String
                                           ((Ascii (true, false, true, false,
                                           true, true, true, false)), (String
                                           ((Ascii (false, false, true,
                                           false, true, true, true, false)),
                                           EmptyString))))))))))))))))))
                     else SY (String ((Ascii (false, true, false, false,
                            false, true, true, false)), (String ((Ascii
                            (true, false, false, false, false, true, true,
                            false)), (String ((Ascii (false, false, true,
                            false, false, true, true, false)), (String
                            ((Ascii (true, false, true, true, false, true,
                            false, false)), (String ((Ascii (true, false,
                            false, true, false, true, true, false)), (String
                            ((Ascii (false, true, true, true, false, true,
                            true, false)), (String ((Ascii (false, false,
                            false, false, true, true, true, false)), (String
                            ((Ascii (true, false, true, false, true, true,
                            true, false)), (String ((Ascii (false, false,
                            true, false, true, true, true, false)),
                            EmptyString))))))))))))))))))
                else SY (String ((Ascii (false, true, false, false, false,
                       true, true, false)), (String ((Ascii (true, false,
                       false, false, false, true, true, false)), (String
                       ((Ascii (false, false, true, false, false, true, true,
                       false)), (String ((Ascii (true, false, true, true,
                       false, true, false, false)), (String ((Ascii (true,
                       false, false, true, false, true, true, false)),
                       (String ((Ascii (false, true, true, true, false, true,
                       true, false)), (String ((Ascii (false, false, false,
                       false, true, true, true, false)), (String ((Ascii
                       (true, false, true, false, true, true, true, false)),
                       (String ((Ascii (false, false, true, false, true,
                       true, true, false)), EmptyString))))))))))))))))))
           else if b0
                then if b1
                     then if b2
                          then SY (String ((Ascii (false, true, false, false,
                                 false, true, true, false)), (String ((Ascii
                                 (true, false, false, false, false, true,
                                 true, false)), (String ((Ascii (false,
                                 false, true, false, false, true, true,
                                 false)), (String ((Ascii (true, false, true,
                                 true, false, true, false, false)), (String
                                 ((Ascii (true, false, false, true, false,
                                 true, true, false)), (String ((Ascii (false,
                                 true, true, true, false, true, true,
                                 false)), (String ((Ascii (false, false,
                                 false, false, true, true, true, false)),
                                 (String ((Ascii (true, false, true, false,
                                 true, true, true, false)), (String ((Ascii
                                 (false, false, true, false, true, true,
                                 true, false)), EmptyString))))))))))))))))))
                          else if b3
                               then SY (String ((Ascii (false, true, false,
                                      false, false, true, true, false)),
                                      (String ((Ascii (true, false, false,
                                      false, false, true, true, false)),
                                      (String ((Ascii (false, false, true,
                                      false, false, true, true, false)),
                                      (String ((Ascii (true, false, true,
                                      true, false, true, false, false)),
                                      (String ((Ascii (true, false, false,
                                      true, false, true, true, false)),
                                      (String ((Ascii (false, true, true,
                                      true, false, true, true, false)),
                                      (String ((Ascii (false, false, false,
                                      false, true, true, true, false)),
                                      (String ((Ascii (true, false, true,
                                      false, true, true, true, false)),
                                      (String ((Ascii (false, false, true,
                                      false, true, true, true, false)),
                                      EmptyString))))))))))))))))))
                               else if b4
                                    then if b5
                                         then if b6
                                              then SY (String ((Ascii (false,
                                                     true, false, false,
                                                     false, true, true,
                                                     false)), (String ((Ascii
                                                     (true, false, false,
                                                     false, false, true,
                                                     true, false)), (String
                                                     ((Ascii (false, false,
                                                     true, false, false,
                                                     true, true, false)),
                                                     (String ((Ascii (true,
                                                     false, true, true,
                                                     false, true, false,
                                                     false)), (String ((Ascii
                                                     (true, false, false,
                                                     true, false, true, true,
                                                     false)), (String ((Ascii
                                                     (false, true, true,
                                                     true, false, true, true,
                                                     false)), (String ((Ascii
                                                     (false, false, false,
                                                     false, true, true, true,
                                                     false)), (String ((Ascii
                                                     (true, false, true,
                                                     false, true, true, true,
                                                     false)), (String ((Ascii
                                                     (false, false, true,
                                                     false, true, true, true,
                                                     false)),
                                                     EmptyString))))))))))))))))))
                                              else (match s1 with
                                                    | EmptyString ->
                                                      SY (String ((Ascii
                                                        (false, true, false,
                                                        false, false, true,
                                                        true, false)),
                                                        (String ((Ascii
                                                        (true, false, false,
                                                        false, false, true,
                                                        true, false)),
                                                        (String ((Ascii
                                                        (false, false, true,
                                                        false, false, true,
                                                        true, false)),
                                                        (String ((Ascii
                                                        (true, false, true,
                                                        true, false, true,
                                                        false, false)),
                                                        (String ((Ascii
                                                        (true, false, false,
                                                        true, false, true,
                                                        true, false)),
                                                        (String ((Ascii
                                                        (false, true, true,
                                                        true, false, true,
                                                        true, false)),
                                                        (String ((Ascii
                                                        (false, false, false,
                                                        false, true, true,
                                                        true, false)),
                                                        (String ((Ascii
                                                        (true, false, true,
                                                        false, true, true,
                                                        true, false)),
                                                        (String ((Ascii
                                                        (false, false, true,
                                                        false, true, true,
                                                        true, false)),
                                                        EmptyString))))))))))))))))))
                                                    | String (a0, s2) ->
                                                      let Ascii (b7, b8, b9,
                                                                 b10, b11,
                                                                 b12, b13, b14) =
                                                        a0
                                                      in
                                                      if b7
                                                      then if b8
                                                           then SY (String
                                                                  ((Ascii
                                                                  (false,
                                                                  true,
                                                                  false,
                                                                  false,
                                                                  false,
                                                                  true, true,
                                                                  false)),
                                                                  (String
                                                                  ((Ascii
                                                                  (true,
                                                                  false,
                                                                  false,
                                                                  false,
                                                                  false,
                                                                  true, true,
                                                                  false)),
                                                                  (String
                                                                  ((Ascii
                                                                  (false,
                                                                  false,
                                                                  true,
                                                                  false,
                                                                  false,
                                                                  true, true,
                                                                  false)),
                                                                  (String
                                                                  ((Ascii
                                                                  (true,
                                                                  false,
                                                                  true, true,
                                                                  false,
                                                                  true,
                                                                  false,
                                                                  false)),
                                                                  (String
                                                                  ((Ascii
                                                                  (true,
                                                                  false,
                                                                  false,
                                                                  true,
                                                                  false,
                                                                  true, true,
                                                                  false)),
                                                                  (String
                                                                  ((Ascii
                                                                  (false,
                                                                  true, true,
                                                                  true,
                                                                  false,
                                                                  true, true,
                                                                  false)),
                                                                  (String
                                                                  ((Ascii
                                                                  (false,
                                                                  false,
                                                                  false,
                                                                  false,
                                                                  true, true,
                                                                  true,
                                                                  false)),
                                                                  (String
                                                                  ((Ascii
                                                                  (true,
                                                                  false,
                                                                  true,
                                                                  false,
                                                                  true, true,
                                                                  true,
                                                                  false)),
                                                                  (String
                                                                  ((Ascii
                                                                  (false,
                                                                  false,
                                                                  true,
                                                                  false,
                                                                  true, true,
                                                                  true,
                                                                  false)),
                                                                  EmptyString))))))))))))))))))
                                                           else if b9
                                                                then 
                                                                  SY (String
                                                                    ((Ascii
                                                                    (false,
                                                                    true,
                                                                    false,
                                                                    false,
                                                                    false,
                                                                    true,
                                                                    true,
                                                                    false)),
                                                                    (String
                                                                    ((Ascii
                                                                    (true,
                                                                    false,
                                                                    false,
                                                                    false,
                                                                    false,
                                                                    true,
                                                                    true,
                                                                    false)),
                                                                    (String
                                                                    ((Ascii
                                                                    (false,
                                                                    false,
                                                                    true,
                                                                    false,
                                                                    false,
                                                                    true,
                                                                    true,
                                                                    false)),
                                                                    (String
                                                                    ((Ascii
                                                                    (true,
                                                                    false,
                                                                    true,
                                                                    true,
                                                                    false,
                                                                    true,
                                                                    false,
                                                                    false)),
                                                                    (String
                                                                    ((Ascii
                                                                    (true,
                                                                    false,
                                                                    false,
                                                                    true,
                                                                    false,
                                                                    true,
                                                                    true,
                                                                    false)),
                                                                    (String
                                                                    ((Ascii
                                                                    (false,
                                                                    true,
                                                                    true,
                                                                    true,
                                                                    false,
                                                                    true,
                                                                    true,
                                                                    false)),
                                                                    (String
                                                                    ((Ascii
                                                                    (false,
                                                                    false,
                                                                    false,
                                                                    false,
                                                                    true,
                                                                    true,
                                                                    true,
                                                                    false)),
                                                                    (String
                                                                    ((Ascii
                                                                    (true,
                                                                    false,
                                                                    true,
                                                                    false,
                                                                    true,
                                                                    true,
                                                                    true,
                                                                    false)),
                                                                    (String
                                                                    ((Ascii
                                                                    (false,
                                                                    false,
                                                                    true,
                                                                    false,
                                                                    true,
                                                                    true,
                                                                    true,
                                                                    false)),
                                                                    EmptyString))))))))))))))))))
                                                                else 
                                                                  if b10
                                                                  then 
                                                                    SY
                                                                    (String
                                                                    ((Ascii
                                                                    (false,
                                                                    true,
                                                                    false,
                                                                    false,
                                                                    false,
                                                                    true,
                                                                    true,
                                                                    false)),
                                                                    (String
                                                                    ((Ascii
                                                                    (true,
                                                                    false,
                                                                    false,
                                                                    false,
                                                                    false,
                                                                    true,
                                                                    true,
                                                                    false)),
                                                                    (String
                                                                    ((Ascii
                                                                    (false,
                                                                    false,
                                                                    true,
                                                                    false,
                                                                    false,
                                                                    true,
                                                                    true,
                                                                    false)),
                                                                    (String
                                                                    ((Ascii
                                                                    (true,
                                                                    false,
                                                                    true,
                                                                    true,
                                                                    false,
                                                                    true,
                                                                    false,
                                                                    false)),
                                                                    (String
                                                                    ((Ascii
                                                                    (true,
                                                                    false,
                                                                    false,
                                                                    true,
                                                                    false,
                                                                    true,
                                                                    true,
                                                                    false)),
                                                                    (String
                                                                    ((Ascii
                                                                    (false,
                                                                    true,
                                                                    true,
                                                                    true,
                                                                    false,
                                                                    true,
                                                                    true,
                                                                    false)),
                                                                    (String
                                                                    ((Ascii
                                                                    (false,
                                                                    false,
                                                                    false,
                                                                    false,
                                                                    true,
                                                                    true,
                                                                    true,
                                                                    false)),
                                                                    (String
                                                                    ((Ascii
                                                                    (true,
                                                                    false,
                                                                    true,
                                                                    false,
                                                                    true,
                                                                    true,
                                                                    true,
                                                                    false)),
                                                                    (String
                                                                    ((Ascii
                                                                    (false,
                                                                    false,
                                                                    true,
                                                                    false,
                                                                    true,
                                                                    true,
                                                                    true,
                                                                    false)),
                                                                    EmptyString))))))))))))))))))
                                                                  else 
                                                                    if b11
                                                                    then 
                                                                    SY
                                                                    (String
                                                                    ((Ascii
                                                                    (false,
                                                                    true,
                                                                    false,
                                                                    false,
                                                                    false,
                                                                    true,
                                                                    true,
                                                                    false)),
                                                                    (String
                                                                    ((Ascii
                                                                    (true,
                                                                    false,
                                                                    false,
                                                                    false,
                                                                    false,
                                                                    true,
                                                                    true,
                                                                    false)),
                                                                    (String
                                                                    ((Ascii
                                                                    (false,
                                                                    false,
                                                                    true,
                                                                    false,
                                                                    false,
                                                                    true,
                                                                    true,
                                                                    false)),
                                                                    (String
                                                                    ((Ascii
                                                                    (true,
                                                                    false,
                                                                    true,
                                                                    true,
                                                                    false,
                                                                    true,
                                                                    false,
                                                                    false)),
                                                                    (String
                                                                    ((Ascii
                                                                    (true,
                                                                    false,
                                                                    false,
                                                                    true,
                                                                    false,
                                                                    true,
                                                                    true,
                                                                    false)),
                                                                    (String
                                                                    ((Ascii
                                                                    (false,
                                                                    true,
                                                                    true,
                                                                    true,
                                                                    false,
                                                                    true,
                                                                    true,
                                                                    false)),
                                                                    (String
                                                                    ((Ascii
                                                                    (false,
                                                                    false,
                                                                    false,
                                                                    false,
                                                                    true,
                                                                    true,
                                                                    true,
                                                                    false)),
                                                                    (String
                                                                    ((Ascii
                                                                    (true,
                                                                    false,
                                                                    true,
                                                                    false,
                                                                    true,
                                                                    true,
                                                                    true,
                                                                    false)),
                                                                    (String
                                                                    ((Ascii
                                                                    (false,
                                                                    false,
                                                                    true,
                                                                    false,
                                                                    true,
                                                                    true,
                                                                    true,
                                                                    false)),
                                                                    EmptyString))))))))))))))))))
                                                                    else 
                                                                    if b12
                                                                    then 
                                                                    if b13
                                                                    then 
                                                                    if b14
                                                                    then 
                                                                    SY
                                                                    (String
                                                                    ((Ascii
                                                                    (false,
                                                                    true,
                                                                    false,
                                                                    false,
                                                                    false,
                                                                    true,
                                                                    true,
                                                                    false)),
                                                                    (String
                                                                    ((Ascii
                                                                    (true,
                                                                    false,
                                                                    false,
                                                                    false,
                                                                    false,
                                                                    true,
                                                                    true,
                                                                    false)),
                                                                    (String
                                                                    ((Ascii
                                                                    (false,
                                                                    false,
                                                                    true,
                                                                    false,
                                                                    false,
                                                                    true,
                                                                    true,
                                                                    false)),
                                                                    (String
                                                                    ((Ascii
                                                                    (true,
                                                                    false,
                                                                    true,
                                                                    true,
                                                                    false,
                                                                    true,
                                                                    false,
                                                                    false)),
                                                                    (String
                                                                    ((Ascii
                                                                    (true,
                                                                    false,
                                                                    false,
                                                                    true,
                                                                    false,
                                                                    true,
                                                                    true,
                                                                    false)),
                                                                    (String
                                                                    ((Ascii
                                                                    (false,
                                                                    true,
                                                                    true,
                                                                    true,
                                                                    false,
                                                                    true,
                                                                    true,
                                                                    false)),
                                                                    (String
                                                                    ((Ascii
                                                                    (false,
                                                                    false,
                                                                    false,
                                                                    false,
                                                                    true,
                                                                    true,
                                                                    true,
                                                                    false)),
                                                                    (String
                                                                    ((Ascii
                                                                    (true,
                                                                    false,
                                                                    true,
                                                                    false,
                                                                    true,
                                                                    true,
                                                                    true,
                                                                    false)),
                                                                    (String
                                                                    ((Ascii
                                                                    (false,
                                                                    false,
                                                                    true,
                                                                    false,
                                                                    true,
                                                                    true,
                                                                    true,
                                                                    false)),
                                                                    EmptyString))))))))))))))))))
                                                                    else 
                                                                    (match s2 with
                                                                    | EmptyString ->
                                                                    SY
                                                                    (String
                                                                    ((Ascii
                                                                    (false,
                                                                    true,
                                                                    false,
                                                                    false,
                                                                    false,
                                                                    true,
                                                                    true,
                                                                    false)),
                                                                    (String
                                                                    ((Ascii
                                                                    (true,
                                                                    false,
                                                                    false,
                                                                    false,
                                                                    false,
                                                                    true,
                                                                    true,
                                                                    false)),
                                                                    (String
                                                                    ((Ascii
                                                                    (false,
                                                                    false,
                                                                    true,
                                                                    false,
                                                                    false,
                                                                    true,
                                                                    true,
                                                                    false)),
                                                                    (String
                                                                    ((Ascii
                                                                    (true,
                                                                    false,
                                                                    true,
                                                                    true,
                                                                    false,
                                                                    true,
                                                                    false,
                                                                    false)),
                                                                    (String
                                                                    ((Ascii
                                                                    (true,
                                                                    false,
                                                                    false,
                                                                    true,
                                                                    false,
                                                                    true,
                                                                    true,
                                                                    false)),
                                                                    (String
                                                                    ((Ascii
                                                                    (false,
                                                                    true,
                                                                    true,
                                                                    true,
                                                                    false,
                                                                    true,
                                                                    true,
                                                                    false)),
                                                                    (String
                                                                    ((Ascii
                                                                    (false,
                                                                    false,
                                                                    false,
                                                                    false,
                                                                    true,
                                                                    true,
                                                                    true,
                                                                    false)),
                                                                    (String
                                                                    ((Ascii
                                                                    (true,
                                                                    false,
                                                                    true,
                                                                    false,
                                                                    true,
                                                                    true,
                                                                    true,
                                                                    false)),
                                                                    (String
                                                                    ((Ascii
                                                                    (false,
                                                                    false,
                                                                    true,
                                                                    false,
                                                                    true,
                                                                    true,
                                                                    true,
                                                                    false)),
                                                                    EmptyString))))))))))))))))))
                                                                    | String (
                                                                    a1, s3) ->
                                                                    let Ascii (
                                                                    b15, b16,
                                                                    b17, b18,
                                                                    b19, b20,
                                                                    b21, b22) =
                                                                    a1
                                                                    in
                                                                    if b15
                                                                    then 
                                                                    if b16
                                                                    then 
                                                                    SY
                                                                    (String
                                                                    ((Ascii
                                                                    (false,
                                                                    true,
                                                                    false,
                                                                    false,
                                                                    false,
                                                                    true,
                                                                    true,
                                                                    false)),
                                                                    (String
                                                                    ((Ascii
                                                                    (true,
                                                                    false,
                                                                    false,
                                                                    false,
                                                                    false,
                                                                    true,
                                                                    true,
                                                                    false)),
                                                                    (String
                                                                    ((Ascii
                                                                    (false,
                                                                    false,
                                                                    true,
                                                                    false,
                                                                    false,
                                                                    true,
                                                                    true,
                                                                    false)),
                                                                    (String
                                                                    ((Ascii
                                                                    (true,
                                                                    false,
                                                                    true,
                                                                    true,
                                                                    false,
                                                                    true,
                                                                    false,
                                                                    false)),
                                                                    (String
                                                                    ((Ascii
                                                                    (true,
                                                                    false,
                                                                    false,
                                                                    true,
                                                                    false,
                                                                    true,
                                                                    true,
                                                                    false)),
                                                                    (String
                                                                    ((Ascii
                                                                    (false,
                                                                    true,
                                                                    true,
                                                                    true,
                                                                    false,
                                                                    true,
                                                                    true,
                                                                    false)),
                                                                    (String
                                                                    ((Ascii
                                                                    (false,
                                                                    false,
                                                                    false,
                                                                    false,
                                                                    true,
                                                                    true,
                                                                    true,
                                                                    false)),
                                                                    (String
                                                                    ((Ascii
                                                                    (true,
                                                                    false,
                                                                    true,
                                                                    false,
                                                                    true,
                                                                    true,
                                                                    true,
                                                                    false)),
                                                                    (String
                                                                    ((Ascii
                                                                    (false,
                                                                    false,
                                                                    true,
                                                                    false,
                                                                    true,
                                                                    true,
                                                                    true,
                                                                    false)),
                                                                    EmptyString))))))))))))))))))
                                                                    else 
                                                                    if b17
                                                                    then 
                                                                    SY
                                                                    (String
                                                                    ((Ascii
                                                                    (false,
                                                                    true,
                                                                    false,
                                                                    false,
                                                                    false,
                                                                    true,
                                                                    true,
                                                                    false)),
                                                                    (String
                                                                    ((Ascii
                                                                    (true,
                                                                    false,
                                                                    false,
                                                                    false,
                                                                    false,
                                                                    true,
                                                                    true,
                                                                    false)),
                                                                    (String
                                                                    ((Ascii
                                                                    (false,
                                                                    false,
                                                                    true,
                                                                    false,
                                                                    false,
                                                                    true,
                                                                    true,
                                                                    false)),
                                                                    (String
                                                                    ((Ascii
                                                                    (true,
                                                                    false,
                                                                    true,
                                                                    true,
                                                                    false,
                                                                    true,
                                                                    false,
                                                                    false)),
                                                                    (String
                                                                    ((Ascii
                                                                    (true,
                                                                    false,
                                                                    false,
                                                                    true,
                                                                    false,
                                                                    true,
                                                                    true,
                                                                    false)),
                                                                    (String
                                                                    ((Ascii
                                                                    (false,
                                                                    true,
                                                                    true,
                                                                    true,
                                                                    false,
                                                                    true,
                                                                    true,
                                                                    false)),
                                                                    (String
                                                                    ((Ascii
                                                                    (false,
                                                                    false,
                                                                    false,
                                                                    false,
                                                                    true,
                                                                    true,
                                                                    true,
                                                                    false)),
                                                                    (String
                                                                    ((Ascii
                                                                    (true,
                                                                    false,
                                                                    true,
                                                                    false,
                                                                    true,
                                                                    true,
                                                                    true,
                                                                    false)),
                                                                    (String
                                                                    ((Ascii
                                                                    (false,
                                                                    false,
                                                                    true,
                                                                    false,
                                                                    true,
                                                                    true,
                                                                    true,
                                                                    false)),
                                                                    EmptyString))))))))))))))))))
                                                                    else 
                                                                    if b18
                                                                    then 
                                                                    if b19
                                                                    then 
                                                                    SY
                                                                    (String
                                                                    ((Ascii
                                                                    (false,
                                                                    true,
                                                                    false,
                                                                    false,
                                                                    false,
                                                                    true,
                                                                    true,
                                                                    false)),
                                                                    (String
                                                                    ((Ascii
                                                                    (true,
                                                                    false,
                                                                    false,
                                                                    false,
                                                                    false,
                                                                    true,
                                                                    true,
                                                                    false)),
                                                                    (String
                                                                    ((Ascii
                                                                    (false,
                                                                    false,
                                                                    true,
                                                                    false,
                                                                    false,
                                                                    true,
                                                                    true,
                                                                    false)),
                                                                    (String
                                                                    ((Ascii
                                                                    (true,
                                                                    false,
                                                                    true,
                                                                    true,
                                                                    false,
                                                                    true,
                                                                    false,
                                                                    false)),
                                                                    (String
                                                                    ((Ascii
                                                                    (true,
                                                                    false,
                                                                    false,
                                                                    true,
                                                                    false,
                                                                    true,
                                                                    true,
                                                                    false)),
                                                                    (String
                                                                    ((Ascii
                                                                    (false,
                                                                    true,
                                                                    true,
                                                                    true,
                                                                    false,
                                                                    true,
                                                                    true,
                                                                    false)),
                                                                    (String
                                                                    ((Ascii
                                                                    (false,
                                                                    false,
                                                                    false,
                                                                    false,
                                                                    true,
                                                                    true,
                                                                    true,
                                                                    false)),
                                                                    (String
                                                                    ((Ascii
                                                                    (true,
                                                                    false,
                                                                    true,
                                                                    false,
                                                                    true,
                                                                    true,
                                                                    true,
                                                                    false)),
                                                                    (String
                                                                    ((Ascii
                                                                    (false,
                                                                    false,
                                                                    true,
                                                                    false,
                                                                    true,
                                                                    true,
                                                                    true,
                                                                    false)),
                                                                    EmptyString))))))))))))))))))
                                                                    else 
                                                                    if b20
                                                                    then 
                                                                    if b21
                                                                    then 
                                                                    if b22
                                                                    then 
                                                                    SY
                                                                    (String
                                                                    ((Ascii
                                                                    (false,
                                                                    true,
                                                                    false,
                                                                    false,
                                                                    false,
                                                                    true,
                                                                    true,
                                                                    false)),
                                                                    (String
                                                                    ((Ascii
                                                                    (true,
                                                                    false,
                                                                    false,
                                                                    false,
                                                                    false,
                                                                    true,
                                                                    true,
                                                                    false)),
                                                                    (String
                                                                    ((Ascii
                                                                    (false,
                                                                    false,
                                                                    true,
                                                                    false,
                                                                    false,
                                                                    true,
                                                                    true,
                                                                    false)),
                                                                    (String
                                                                    ((Ascii
                                                                    (true,
                                                                    false,
                                                                    true,
                                                                    true,
                                                                    false,
                                                                    true,
                                                                    false,
                                                                    false)),
                                                                    (String
                                                                    ((Ascii
                                                                    (true,
                                                                    false,
                                                                    false,
                                                                    true,
                                                                    false,
                                                                    true,
                                                                    true,
                                                                    false)),
                                                                    (String
                                                                    ((Ascii
                                                                    (false,
                                                                    true,
                                                                    true,
                                                                    true,
                                                                    false,
                                                                    true,
                                                                    true,
                                                                    false)),
                                                                    (String
                                                                    ((Ascii
                                                                    (false,
                                                                    false,
                                                                    false,
                                                                    false,
                                                                    true,
                                                                    true,
                                                                    true,
                                                                    false)),
                                                                    (String
                                                                    ((Ascii
                                                                    (true,
                                                                    false,
                                                                    true,
                                                                    false,
                                                                    true,
                                                                    true,
                                                                    true,
                                                                    false)),
                                                                    (String
                                                                    ((Ascii
                                                                    (false,
                                                                    false,
                                                                    true,
                                                                    false,
                                                                    true,
                                                                    true,
                                                                    true,
                                                                    false)),
                                                                    EmptyString))))))))))))))))))
                                                                    else 
                                                                    (match s3 with
                                                                    | EmptyString ->
                                                                    SY
                                                                    (String
                                                                    ((Ascii
                                                                    (false,
                                                                    true,
                                                                    false,
                                                                    false,
                                                                    false,
                                                                    true,
                                                                    true,
                                                                    false)),
                                                                    (String
                                                                    ((Ascii
                                                                    (true,
                                                                    false,
                                                                    false,
                                                                    false,
                                                                    false,
                                                                    true,
                                                                    true,
                                                                    false)),
                                                                    (String
                                                                    ((Ascii
                                                                    (false,
                                                                    false,
                                                                    true,
                                                                    false,
                                                                    false,
                                                                    true,
                                                                    true,
                                                                    false)),
                                                                    (String
                                                                    ((Ascii
                                                                    (true,
                                                                    false,
                                                                    true,
                                                                    true,
                                                                    false,
                                                                    true,
                                                                    false,
                                                                    false)),
                                                                    (String
                                                                    ((Ascii
                                                                    (true,
                                                                    false,
                                                                    false,
                                                                    true,
                                                                    false,
                                                                    true,
                                                                    true,
                                                                    false)),
                                                                    (String
                                                                    ((Ascii
                                                                    (false,
                                                                    true,
                                                                    true,
                                                                    true,
                                                                    false,
                                                                    true,
                                                                    true,
                                                                    false)),
                                                                    (String
                                                                    ((Ascii
                                                                    (false,
                                                                    false,
                                                                    false,
                                                                    false,
                                                                    true,
                                                                    true,
                                                                    true,
                                                                    false)),
                                                                    (String
                                                                    ((Ascii
                                                                    (true,
                                                                    false,
                                                                    true,
                                                                    false,
                                                                    true,
                                                                    true,
                                                                    true,
                                                                    false)),
                                                                    (String
                                                                    ((Ascii
                                                                    (false,
                                                                    false,
                                                                    true,
                                                                    false,
                                                                    true,
                                                                    true,
                                                                    true,
                                                                    false)),
                                                                    EmptyString))))))))))))))))))
                                                                    | String (
                                                                    a2, s4) ->
                                                                    let Ascii (
                                                                    b23, b24,
                                                                    b25, b26,
                                                                    b27, b28,
                                                                    b29, b30) =
                                                                    a2
                                                                    in
                                                                    if b23
                                                                    then 
                                                                    SY
                                                                    (String
                                                                    ((Ascii
                                                                    (false,
                                                                    true,
                                                                    false,
                                                                    false,
                                                                    false,
                                                                    true,
                                                                    true,
                                                                    false)),
                                                                    (String
                                                                    ((Ascii
                                                                    (true,
                                                                    false,
                                                                    false,
                                                                    false,
                                                                    false,
                                                                    true,
                                                                    true,
                                                                    false)),
                                                                    (String
                                                                    ((Ascii
                                                                    (false,
                                                                    false,
                                                                    true,
                                                                    false,
                                                                    false,
                                                                    true,
                                                                    true,
                                                                    false)),
                                                                    (String
                                                                    ((Ascii
                                                                    (true,
                                                                    false,
                                                                    true,
                                                                    true,
                                                                    false,
                                                                    true,
                                                                    false,
                                                                    false)),
                                                                    (String
                                                                    ((Ascii
                                                                    (true,
                                                                    false,
                                                                    false,
                                                                    true,
                                                                    false,
                                                                    true,
                                                                    true,
                                                                    false)),
                                                                    (String
                                                                    ((Ascii
                                                                    (false,
                                                                    true,
                                                                    true,
                                                                    true,
                                                                    false,
                                                                    true,
                                                                    true,
                                                                    false)),
                                                                    (String
                                                                    ((Ascii
                                                                    (false,
                                                                    false,
                                                                    false,
                                                                    false,
                                                                    true,
                                                                    true,
                                                                    true,
                                                                    false)),
                                                                    (String
                                                                    ((Ascii
                                                                    (true,
                                                                    false,
                                                                    true,
                                                                    false,
                                                                    true,
                                                                    true,
                                                                    true,
                                                                    false)),
                                                                    (String
                                                                    ((Ascii
                                                                    (false,
                                                                    false,
                                                                    true,
                                                                    false,
                                                                    true,
                                                                    true,
                                                                    true,
                                                                    false)),
                                                                    EmptyString))))))))))))))))))
                                                                    else 
                                                                    if b24
                                                                    then 
                                                                    SY
                                                                    (String
                                                                    ((Ascii
                                                                    (false,
                                                                    true,
                                                                    false,
                                                                    false,
                                                                    false,
                                                                    true,
                                                                    true,
                                                                    false)),
                                                                    (String
                                                                    ((Ascii
                                                                    (true,
                                                                    false,
                                                                    false,
                                                                    false,
                                                                    false,
                                                                    true,
                                                                    true,
                                                                    false)),
                                                                    (String
                                                                    ((Ascii
                                                                    (false,
                                                                    false,
                                                                    true,
                                                                    false,
                                                                    false,
                                                                    true,
                                                                    true,
                                                                    false)),
                                                                    (String
                                                                    ((Ascii
                                                                    (true,
                                                                    false,
                                                                    true,
                                                                    true,
                                                                    false,
                                                                    true,
                                                                    false,
                                                                    false)),
                                                                    (String
                                                                    ((Ascii
                                                                    (true,
                                                                    false,
                                                                    false,
                                                                    true,
                                                                    false,
                                                                    true,
                                                                    true,
                                                                    false)),
                                                                    (String
                                                                    ((Ascii
                                                                    (false,
                                                                    true,
                                                                    true,
                                                                    true,
                                                                    false,
                                                                    true,
                                                                    true,
                                                                    false)),
                                                                    (String
                                                                    ((Ascii
                                                                    (false,
                                                                    false,
                                                                    false,
                                                                    false,
                                                                    true,
                                                                    true,
                                                                    true,
                                                                    false)),
                                                                    (String
                                                                    ((Ascii
                                                                    (true,
                                                                    false,
                                                                    true,
                                                                    false,
                                                                    true,
                                                                    true,
                                                                    true,
                                                                    false)),
                                                                    (String
                                                                    ((Ascii
                                                                    (false,
                                                                    false,
                                                                    true,
                                                                    false,
                                                                    true,
                                                                    true,
                                                                    true,
                                                                    false)),
                                                                    EmptyString))))))))))))))))))
                                                                    else 
                                                                    if b25
                                                                    then 
                                                                    if b26
                                                                    then 
                                                                    if b27
                                                                    then 
                                                                    SY
                                                                    (String
                                                                    ((Ascii
                                                                    (false,
                                                                    true,
                                                                    false,
                                                                    false,
                                                                    false,
                                                                    true,
                                                                    true,
                                                                    false)),
                                                                    (String
                                                                    ((Ascii
                                                                    (true,
                                                                    false,
                                                                    false,
                                                                    false,
                                                                    false,
                                                                    true,
                                                                    true,
                                                                    false)),
                                                                    (String
                                                                    ((Ascii
                                                                    (false,
                                                                    false,
                                                                    true,
                                                                    false,
                                                                    false,
                                                                    true,
                                                                    true,
                                                                    false)),
                                                                    (String
                                                                    ((Ascii
                                                                    (true,
                                                                    false,
                                                                    true,
                                                                    true,
                                                                    false,
                                                                    true,
                                                                    false,
                                                                    false)),
                                                                    (String
                                                                    ((Ascii
                                                                    (true,
                                                                    false,
                                                                    false,
                                                                    true,
                                                                    false,
                                                                    true,
                                                                    true,
                                                                    false)),
                                                                    (String
                                                                    ((Ascii
                                                                    (false,
                                                                    true,
                                                                    true,
                                                                    true,
                                                                    false,
                                                                    true,
                                                                    true,
                                                                    false)),
                                                                    (String
                                                                    ((Ascii
                                                                    (false,
                                                                    false,
                                                                    false,
                                                                    false,
                                                                    true,
                                                                    true,
                                                                    true,
                                                                    false)),
                                                                    (String
                                                                    ((Ascii
                                                                    (true,
                                                                    false,
                                                                    true,
                                                                    false,
                                                                    true,
                                                                    true,
                                                                    true,
                                                                    false)),
                                                                    (String
                                                                    ((Ascii
                                                                    (false,
                                                                    false,
                                                                    true,
                                                                    false,
                                                                    true,
                                                                    true,
                                                                    true,
                                                                    false)),
                                                                    EmptyString))))))))))))))))))
                                                                    else 
                                                                    if b28
                                                                    then 
                                                                    if b29
                                                                    then 
                                                                    if b30
                                                                    then 
                                                                    SY
                                                                    (String
                                                                    ((Ascii
                                                                    (false,
                                                                    true,
                                                                    false,
                                                                    false,
                                                                    false,
                                                                    true,
                                                                    true,
                                                                    false)),
                                                                    (String
                                                                    ((Ascii
                                                                    (true,
                                                                    false,
                                                                    false,
                                                                    false,
                                                                    false,
                                                                    true,
                                                                    true,
                                                                    false)),
                                                                    (String
                                                                    ((Ascii
                                                                    (false,
                                                                    false,
                                                                    true,
                                                                    false,
                                                                    false,
                                                                    true,
                                                                    true,
                                                                    false)),
                                                                    (String
                                                                    ((Ascii
                                                                    (true,
                                                                    false,
                                                                    true,
                                                                    true,
                                                                    false,
                                                                    true,
                                                                    false,
                                                                    false)),
                                                                    (String
                                                                    ((Ascii
                                                                    (true,
                                                                    false,
                                                                    false,
                                                                    true,
                                                                    false,
                                                                    true,
                                                                    true,
                                                                    false)),
                                                                    (String
                                                                    ((Ascii
                                                                    (false,
                                                                    true,
                                                                    true,
                                                                    true,
                                                                    false,
                                                                    true,
                                                                    true,
                                                                    false)),
                                                                    (String
                                                                    ((Ascii
                                                                    (false,
                                                                    false,
                                                                    false,
                                                                    false,
                                                                    true,
                                                                    true,
                                                                    true,
                                                                    false)),
                                                                    (String
                                                                    ((Ascii
                                                                    (true,
                                                                    false,
                                                                    true,
                                                                    false,
                                                                    true,
                                                                    true,
                                                                    true,
                                                                    false)),
                                                                    (String
                                                                    ((Ascii
                                                                    (false,
                                                                    false,
                                                                    true,
                                                                    false,
                                                                    true,
                                                                    true,
                                                                    true,
                                                                    false)),
                                                                    EmptyString))))))))))))))))))
                                                                    else 
                                                                    (match s4 with
                                                                    | EmptyString ->
                                                                    SY
                                                                    (String
                                                                    ((Ascii
                                                                    (false,
                                                                    true,
                                                                    false,
                                                                    false,
                                                                    false,
                                                                    true,
                                                                    true,
                                                                    false)),
                                                                    (String
                                                                    ((Ascii
                                                                    (true,
                                                                    false,
                                                                    false,
                                                                    false,
                                                                    false,
                                                                    true,
                                                                    true,
                                                                    false)),
                                                                    (String
                                                                    ((Ascii
                                                                    (false,
                                                                    false,
                                                                    true,
                                                                    false,
                                                                    false,
                                                                    true,
                                                                    true,
                                                                    false)),
                                                                    (String
                                                                    ((Ascii
                                                                    (true,
                                                                    false,
                                                                    true,
                                                                    true,
                                                                    false,
                                                                    true,
                                                                    false,
                                                                    false)),
                                                                    (String
                                                                    ((Ascii
                                                                    (true,
                                                                    false,
                                                                    false,
                                                                    true,
                                                                    false,
                                                                    true,
                                                                    true,
                                                                    false)),
                                                                    (String
                                                                    ((Ascii
                                                                    (false,
                                                                    true,
                                                                    true,
                                                                    true,
                                                                    false,
                                                                    true,
                                                                    true,
                                                                    false)),
                                                                    (String
                                                                    ((Ascii
                                                                    (false,
                                                                    false,
                                                                    false,
                                                                    false,
                                                                    true,
                                                                    true,
                                                                    true,
                                                                    false)),
                                                                    (String
                                                                    ((Ascii
                                                                    (true,
                                                                    false,
                                                                    true,
                                                                    false,
                                                                    true,
                                                                    true,
                                                                    true,
                                                                    false)),
                                                                    (String
                                                                    ((Ascii
                                                                    (false,
                                                                    false,
                                                                    true,
                                                                    false,
                                                                    true,
                                                                    true,
                                                                    true,
                                                                    false)),
                                                                    EmptyString))))))))))))))))))
                                                                    | String (
                                                                    a3, s5) ->
                                                                    let Ascii (
                                                                    b31, b32,
                                                                    b33, b34,
                                                                    b35, b36,
                                                                    b37, b38) =
                                                                    a3
                                                                    in
                                                                    if b31
                                                                    then 
                                                                    if b32
                                                                    then 
                                                                    if b33
                                                                    then 
                                                                    SY
                                                                    (String
                                                                    ((Ascii
                                                                    (false,
                                                                    true,
                                                                    false,
                                                                    false,
                                                                    false,
                                                                    true,
                                                                    true,
                                                                    false)),
                                                                    (String
                                                                    ((Ascii
                                                                    (true,
                                                                    false,
                                                                    false,
                                                                    false,
                                                                    false,
                                                                    true,
                                                                    true,
                                                                    false)),
                                                                    (String
                                                                    ((Ascii
                                                                    (false,
                                                                    false,
                                                                    true,
                                                                    false,
                                                                    false,
                                                                    true,
                                                                    true,
                                                                    false)),
                                                                    (String
                                                                    ((Ascii
                                                                    (true,
                                                                    false,
                                                                    true,
                                                                    true,
                                                                    false,
                                                                    true,
                                                                    false,
                                                                    false)),
                                                                    (String
                                                                    ((Ascii
                                                                    (true,
                                                                    false,
                                                                    false,
                                                                    true,
                                                                    false,
                                                                    true,
                                                                    true,
                                                                    false)),
                                                                    (String
                                                                    ((Ascii
                                                                    (false,
                                                                    true,
                                                                    true,
                                                                    true,
                                                                    false,
                                                                    true,
                                                                    true,
                                                                    false)),
                                                                    (String
                                                                    ((Ascii
                                                                    (false,
                                                                    false,
                                                                    false,
                                                                    false,
                                                                    true,
                                                                    true,
                                                                    true,
                                                                    false)),
                                                                    (String
                                                                    ((Ascii
                                                                    (true,
                                                                    false,
                                                                    true,
                                                                    false,
                                                                    true,
                                                                    true,
                                                                    true,
                                                                    false)),
                                                                    (String
                                                                    ((Ascii
                                                                    (false,
                                                                    false,
                                                                    true,
                                                                    false,
                                                                    true,
                                                                    true,
                                                                    true,
                                                                    false)),
                                                                    EmptyString))))))))))))))))))
                                                                    else 
                                                                    if b34
                                                                    then 
                                                                    SY
                                                                    (String
                                                                    ((Ascii
                                                                    (false,
                                                                    true,
                                                                    false,
                                                                    false,
                                                                    false,
                                                                    true,
                                                                    true,
                                                                    false)),
                                                                    (String
                                                                    ((Ascii
                                                                    (true,
                                                                    false,
                                                                    false,
                                                                    false,
                                                                    false,
                                                                    true,
                                                                    true,
                                                                    false)),
                                                                    (String
                                                                    ((Ascii
                                                                    (false,
                                                                    false,
                                                                    true,
                                                                    false,
                                                                    false,
                                                                    true,
                                                                    true,
                                                                    false)),
                                                                    (String
                                                                    ((Ascii
                                                                    (true,
                                                                    false,
                                                                    true,
                                                                    true,
                                                                    false,
                                                                    true,
                                                                    false,
                                                                    false)),
                                                                    (String
                                                                    ((Ascii
                                                                    (true,
                                                                    false,
                                                                    false,
                                                                    true,
                                                                    false,
                                                                    true,
                                                                    true,
                                                                    false)),
                                                                    (String
                                                                    ((Ascii
                                                                    (false,
                                                                    true,
                                                                    true,
                                                                    true,
                                                                    false,
                                                                    true,
                                                                    true,
                                                                    false)),
                                                                    (String
                                                                    ((Ascii
                                                                    (false,
                                                                    false,
                                                                    false,
                                                                    false,
                                                                    true,
                                                                    true,
                                                                    true,
                                                                    false)),
                                                                    (String
                                                                    ((Ascii
                                                                    (true,
                                                                    false,
                                                                    true,
                                                                    false,
                                                                    true,
                                                                    true,
                                                                    true,
                                                                    false)),
                                                                    (String
                                                                    ((Ascii
                                                                    (false,
                                                                    false,
                                                                    true,
                                                                    false,
                                                                    true,
                                                                    true,
                                                                    true,
                                                                    false)),
                                                                    EmptyString))))))))))))))))))
                                                                    else 
                                                                    if b35
                                                                    then 
                                                                    if b36
                                                                    then 
                                                                    if b37
                                                                    then 
                                                                    if b38
                                                                    then 
                                                                    SY
                                                                    (String
                                                                    ((Ascii
                                                                    (false,
                                                                    true,
                                                                    false,
                                                                    false,
                                                                    false,
                                                                    true,
                                                                    true,
                                                                    false)),
                                                                    (String
                                                                    ((Ascii
                                                                    (true,
                                                                    false,
                                                                    false,
                                                                    false,
                                                                    false,
                                                                    true,
                                                                    true,
                                                                    false)),
                                                                    (String
                                                                    ((Ascii
                                                                    (false,
                                                                    false,
                                                                    true,
                                                                    false,
                                                                    false,
                                                                    true,
                                                                    true,
                                                                    false)),
                                                                    (String
                                                                    ((Ascii
                                                                    (true,
                                                                    false,
                                                                    true,
                                                                    true,
                                                                    false,
                                                                    true,
                                                                    false,
                                                                    false)),
                                                                    (String
                                                                    ((Ascii
                                                                    (true,
                                                                    false,
                                                                    false,
                                                                    true,
                                                                    false,
                                                                    true,
                                                                    true,
                                                                    false)),
                                                                    (String
                                                                    ((Ascii
                                                                    (false,
                                                                    true,
                                                                    true,
                                                                    true,
                                                                    false,
                                                                    true,
                                                                    true,
                                                                    false)),
                                                                    (String
                                                                    ((Ascii
                                                                    (false,
                                                                    false,
                                                                    false,
                                                                    false,
                                                                    true,
                                                                    true,
                                                                    true,
                                                                    false)),
                                                                    (String
                                                                    ((Ascii
                                                                    (true,
                                                                    false,
                                                                    true,
                                                                    false,
                                                                    true,
                                                                    true,
                                                                    true,
                                                                    false)),
                                                                    (String
                                                                    ((Ascii
                                                                    (false,
                                                                    false,
                                                                    true,
                                                                    false,
                                                                    true,
                                                                    true,
                                                                    true,
                                                                    false)),
                                                                    EmptyString))))))))))))))))))
                                                                    else 
                                                                    (match s5 with
                                                                    | EmptyString ->
                                                                    (match l1 with
                                                                    | [] ->
                                                                    SY
                                                                    (String
                                                                    ((Ascii
                                                                    (false,
                                                                    true,
                                                                    false,
                                                                    false,
                                                                    false,
                                                                    true,
                                                                    true,
                                                                    false)),
                                                                    (String
                                                                    ((Ascii
                                                                    (true,
                                                                    false,
                                                                    false,
                                                                    false,
                                                                    false,
                                                                    true,
                                                                    true,
                                                                    false)),
                                                                    (String
                                                                    ((Ascii
                                                                    (false,
                                                                    false,
                                                                    true,
                                                                    false,
                                                                    false,
                                                                    true,
                                                                    true,
                                                                    false)),
                                                                    (String
                                                                    ((Ascii
                                                                    (true,
                                                                    false,
                                                                    true,
                                                                    true,
                                                                    false,
                                                                    true,
                                                                    false,
                                                                    false)),
                                                                    (String
                                                                    ((Ascii
                                                                    (true,
                                                                    false,
                                                                    false,
                                                                    true,
                                                                    false,
                                                                    true,
                                                                    true,
                                                                    false)),
                                                                    (String
                                                                    ((Ascii
                                                                    (false,
                                                                    true,
                                                                    true,
                                                                    true,
                                                                    false,
                                                                    true,
                                                                    true,
                                                                    false)),
                                                                    (String
                                                                    ((Ascii
                                                                    (false,
                                                                    false,
                                                                    false,
                                                                    false,
                                                                    true,
                                                                    true,
                                                                    true,
                                                                    false)),
                                                                    (String
                                                                    ((Ascii
                                                                    (true,
                                                                    false,
                                                                    true,
                                                                    false,
                                                                    true,
                                                                    true,
                                                                    true,
                                                                    false)),
                                                                    (String
                                                                    ((Ascii
                                                                    (false,
                                                                    false,
                                                                    true,
                                                                    false,
                                                                    true,
                                                                    true,
                                                                    true,
                                                                    false)),
                                                                    EmptyString))))))))))))))))))
                                                                    | s6 :: l2 ->
                                                                    (match s6 with
                                                                    | SZ e ->
                                                                    (match l2 with
                                                                    | [] ->
                                                                    SY
                                                                    (String
                                                                    ((Ascii
                                                                    (false,
                                                                    true,
                                                                    false,
                                                                    false,
                                                                    false,
                                                                    true,
                                                                    true,
                                                                    false)),
                                                                    (String
                                                                    ((Ascii
                                                                    (true,
                                                                    false,
                                                                    false,
                                                                    false,
                                                                    false,
                                                                    true,
                                                                    true,
                                                                    false)),
                                                                    (String
                                                                    ((Ascii
                                                                    (false,
                                                                    false,
                                                                    true,
                                                                    false,
                                                                    false,
                                                                    true,
                                                                    true,
                                                                    false)),
                                                                    (String
                                                                    ((Ascii
                                                                    (true,
                                                                    false,
                                                                    true,
                                                                    true,
                                                                    false,
                                                                    true,
                                                                    false,
                                                                    false)),
                                                                    (String
                                                                    ((Ascii
                                                                    (true,
                                                                    false,
                                                                    false,
                                                                    true,
                                                                    false,
                                                                    true,
                                                                    true,
                                                                    false)),
                                                                    (String
                                                                    ((Ascii
                                                                    (false,
                                                                    true,
                                                                    true,
                                                                    true,
                                                                    false,
                                                                    true,
                                                                    true,
                                                                    false)),
                                                                    (String
                                                                    ((Ascii
                                                                    (false,
                                                                    false,
                                                                    false,
                                                                    false,
                                                                    true,
                                                                    true,
                                                                    true,
                                                                    false)),
                                                                    (String
                                                                    ((Ascii
                                                                    (true,
                                                                    false,
                                                                    true,
                                                                    false,
                                                                    true,
                                                                    true,
                                                                    true,
                                                                    false)),
                                                                    (String
                                                                    ((Ascii
                                                                    (false,
                                                                    false,
                                                                    true,
                                                                    false,
                                                                    true,
                                                                    true,
                                                                    true,
                                                                    false)),
                                                                    EmptyString))))))))))))))))))
                                                                    | s7 :: l3 ->
                                                                    (match s7 with
                                                                    | SZ l ->
                                                                    (match l3 with
                                                                    | [] ->
                                                                    sbool
                                                                    (fails
                                                                    (elevel_of_Z
                                                                    e)
                                                                    (slevel_of_Z
                                                                    l))
                                                                    | _ :: _ ->
                                                                    SY
                                                                    (String
                                                                    ((Ascii
                                                                    (false,
                                                                    true,
                                                                    false,
                                                                    false,
                                                                    false,
                                                                    true,
                                                                    true,
                                                                    false)),
                                                                    (String
                                                                    ((Ascii
                                                                    (true,
                                                                    false,
                                                                    false,
                                                                    false,
                                                                    false,
                                                                    true,
                                                                    true,
                                                                    false)),
                                                                    (String
                                                                    ((Ascii
                                                                    (false,
                                                                    false,
                                                                    true,
                                                                    false,
                                                                    false,
                                                                    true,
                                                                    true,
                                                                    false)),
                                                                    (String
                                                                    ((Ascii
                                                                    (true,
                                                                    false,
                                                                    true,
                                                                    true,
                                                                    false,
                                                                    true,
                                                                    false,
                                                                    false)),
                                                                    (String
                                                                    ((Ascii
                                                                    (true,
                                                                    false,
                                                                    false,
                                                                    true,
                                                                    false,
                                                                    true,
                                                                    true,
                                                                    false)),
                                                                    (String
                                                                    ((Ascii
                                                                    (false,
                                                                    true,
                                                                    true,
                                                                    true,
                                                                    false,
                                                                    true,
                                                                    true,
                                                                    false)),
                                                                    (String
                                                                    ((Ascii
                                                                    (false,
                                                                    false,
                                                                    false,
                                                                    false,
                                                                    true,
                                                                    true,
                                                                    true,
                                                                    false)),
                                                                    (String
                                                                    ((Ascii
                                                                    (true,
                                                                    false,
                                                                    true,
                                                                    false,
                                                                    true,
                                                                    true,
                                                                    true,
                                                                    false)),
                                                                    (String
                                                                    ((Ascii
                                                                    (false,
                                                                    false,
                                                                    true,
                                                                    false,
                                                                    true,
                                                                    true,
                                                                    true,
                                                                    false)),
                                                                    EmptyString)))))))))))))))))))
                                                                    | _ ->
                                                                    SY
                                                                    (String
                                                                    ((Ascii
                                                                    (false,
                                                                    true,
                                                                    false,
                                                                    false,
                                                                    false,
                                                                    true,
                                                                    true,
                                                                    false)),
                                                                    (String
                                                                    ((Ascii
                                                                    (true,
                                                                    false,
                                                                    false,
                                                                    false,
                                                                    false,
                                                                    true,
                                                                    true,
                                                                    false)),
                                                                    (String
                                                                    ((Ascii
                                                                    (false,
                                                                    false,
                                                                    true,
                                                                    false,
                                                                    false,
                                                                    true,
                                                                    true,
                                                                    false)),
                                                                    (String
                                                                    ((Ascii
                                                                    (true,
                                                                    false,
                                                                    true,
                                                                    true,
                                                                    false,
                                                                    true,
                                                                    false,
                                                                    false)),
                                                                    (String
                                                                    ((Ascii
                                                                    (true,
                                                                    false,
                                                                    false,
                                                                    true,
                                                                    false,
                                                                    true,
                                                                    true,
                                                                    false)),
                                                                    (String
                                                                    ((Ascii
                                                                    (false,
                                                                    true,
                                                                    true,
                                                                    true,
                                                                    false,
                                                                    true,
                                                                    true,
                                                                    false)),
                                                                    (String
                                                                    ((Ascii
                                                                    (false,
                                                                    false,
                                                                    false,
                                                                    false,
                                                                    true,
                                                                    true,
                                                                    true,
                                                                    false)),
                                                                    (String
                                                                    ((Ascii
                                                                    (true,
                                                                    false,
                                                                    true,
                                                                    false,
                                                                    true,
                                                                    true,
                                                                    true,
                                                                    false)),
                                                                    (String
                                                                    ((Ascii
                                                                    (false,
                                                                    false,
                                                                    true,
                                                                    false,
                                                                    true,
                                                                    true,
                                                                    true,
                                                                    false)),
                                                                    EmptyString))))))))))))))))))))
                                                                    | _ ->
                                                                    SY
                                                                    (String
                                                                    ((Ascii
                                                                    (false,
                                                                    true,
                                                                    false,
                                                                    false,
                                                                    false,
                                                                    true,
                                                                    true,
                                                                    false)),
                                                                    (String
                                                                    ((Ascii
                                                                    (true,
                                                                    false,
                                                                    false,
                                                                    false,
                                                                    false,
                                                                    true,
                                                                    true,
                                                                    false)),
                                                                    (String
                                                                    ((Ascii
                                                                    (false,
                                                                    false,
                                                                    true,
                                                                    false,
                                                                    false,
                                                                    true,
                                                                    true,
                                                                    false)),
                                                                    (String
                                                                    ((Ascii
                                                                    (true,
                                                                    false,
                                                                    true,
                                                                    true,
                                                                    false,
                                                                    true,
                                                                    false,
                                                                    false)),
                                                                    (String
                                                                    ((Ascii
                                                                    (true,
                                                                    false,
                                                                    false,
                                                                    true,
                                                                    false,
                                                                    true,
                                                                    true,
                                                                    false)),
                                                                    (String
                                                                    ((Ascii
                                                                    (false,
                                                                    true,
                                                                    true,
                                                                    true,
                                                                    false,
                                                                    true,
                                                                    true,
                                                                    false)),
                                                                    (String
                                                                    ((Ascii
                                                                    (false,
                                                                    false,
                                                                    false,
                                                                    false,
                                                                    true,
                                                                    true,
                                                                    true,
                                                                    false)),
                                                                    (String
                                                                    ((Ascii
                                                                    (true,
                                                                    false,
                                                                    true,
                                                                    false,
                                                                    true,
                                                                    true,
                                                                    true,
                                                                    false)),
                                                                    (String
                                                                    ((Ascii
                                                                    (false,
                                                                    false,
                                                                    true,
                                                                    false,
                                                                    true,
                                                                    true,
                                                                    true,
                                                                    false)),
                                                                    EmptyString))))))))))))))))))))
                                                                    | String (
                                                                    _, _) ->
                                                                    SY
                                                                    (String
                                                                    ((Ascii
                                                                    (false,
                                                                    true,
                                                                    false,
                                                                    false,
                                                                    false,
                                                                    true,
                                                                    true,
                                                                    false)),
                                                                    (String
                                                                    ((Ascii
                                                                    (true,
                                                                    false,
                                                                    false,
                                                                    false,
                                                                    false,
                                                                    true,
                                                                    true,
                                                                    false)),
                                                                    (String
                                                                    ((Ascii
                                                                    (false,
                                                                    false,
                                                                    true,
                                                                    false,
                                                                    false,
                                                                    true,
                                                                    true,
                                                                    false)),
                                                                    (String
                                                                    ((Ascii
                                                                    (true,
                                                                    false,
                                                                    true,
                                                                    true,
                                                                    false,
                                                                    true,
                                                                    false,
                                                                    false)),
                                                                    (String
                                                                    ((Ascii
                                                                    (true,
                                                                    false,
                                                                    false,
                                                                    true,
                                                                    false,
                                                                    true,
                                                                    true,
                                                                    false)),
                                                                    (String
                                                                    ((Ascii
                                                                    (false,
                                                                    true,
                                                                    true,
                                                                    true,
                                                                    false,
                                                                    true,
                                                                    true,
                                                                    false)),
                                                                    (String
                                                                    ((Ascii
                                                                    (false,
                                                                    false,
                                                                    false,
                                                                    false,
                                                                    true,
                                                                    true,
                                                                    true,
                                                                    false)),
                                                                    (String
                                                                    ((Ascii
                                                                    (true,
                                                                    false,
                                                                    true,
                                                                    false,
                                                                    true,
                                                                    true,
                                                                    true,
                                                                    false)),
                                                                    (String
                                                                    ((Ascii
                                                                    (false,
                                                                    false,
                                                                    true,
                                                                    false,
                                                                    true,
                                                                    true,
                                                                    true,
                                                                    false)),
                                                                    EmptyString)))))))))))))))))))
                                                                    else 
                                                                    SY
                                                                    (String
                                                                    ((Ascii
                                                                    (false,
                                                                    true,
                                                                    false,
                                                                    false,
                                                                    false,
                                                                    true,
                                                                    true,
                                                                    false)),
                                                                    (String
                                                                    ((Ascii
                                                                    (true,
                                                                    false,
                                                                    false,
                                                                    false,
                                                                    false,
                                                                    true,
                                                                    true,
                                                                    false)),
                                                                    (String
                                                                    ((Ascii
                                                                    (false,
                                                                    false,
                                                                    true,
                                                                    false,
                                                                    false,
                                                                    true,
                                                                    true,
                                                                    false)),
                                                                    (String
                                                                    ((Ascii
                                                                    (true,
                                                                    false,
                                                                    true,
                                                                    true,
                                                                    false,
                                                                    true,
                                                                    false,
                                                                    false)),
                                                                    (String
                                                                    ((Ascii
                                                                    (true,
                                                                    false,
                                                                    false,
                                                                    true,
                                                                    false,
                                                                    true,
                                                                    true,
                                                                    false)),
                                                                    (String
                                                                    ((Ascii
                                                                    (false,
                                                                    true,
                                                                    true,
                                                                    true,
                                                                    false,
                                                                    true,
                                                                    true,
                                                                    false)),
                                                                    (String
                                                                    ((Ascii
                                                                    (false,
                                                                    false,
                                                                    false,
                                                                    false,
                                                                    true,
                                                                    true,
                                                                    true,
                                                                    false)),
                                                                    (String
                                                                    ((Ascii
                                                                    (true,
                                                                    false,
                                                                    true,
                                                                    false,
                                                                    true,
                                                                    true,
                                                                    true,
                                                                    false)),
                                                                    (String
                                                                    ((Ascii
                                                                    (false,
                                                                    false,
                                                                    true,
                                                                    false,
                                                                    true,
                                                                    true,
                                                                    true,
                                                                    false)),
                                                                    EmptyString))))))))))))))))))
                                                                    else 
                                                                    SY
                                                                    (String
                                                                    ((Ascii
                                                                    (false,
                                                                    true,
                                                                    false,
                                                                    false,
                                                                    false,
                                                                    true,
                                                                    true,
                                                                    false)),
                                                                    (String
                                                                    ((Ascii
                                                                    (true,
                                                                    false,
                                                                    false,
                                                                    false,
                                                                    false,
                                                                    true,
                                                                    true,
                                                                    false)),
                                                                    (String
                                                                    ((Ascii
                                                                    (false,
                                                                    false,
                                                                    true,
                                                                    false,
                                                                    false,
                                                                    true,
                                                                    true,
                                                                    false)),
                                                                    (String
                                                                    ((Ascii
                                                                    (true,
                                                                    false,
                                                                    true,
                                                                    true,
                                                                    false,
                                                                    true,
                                                                    false,
                                                                    false)),
                                                                    (String
                                                                    ((Ascii
                                                                    (true,
                                                                    false,
                                                                    false,
                                                                    true,
                                                                    false,
                                                                    true,
                                                                    true,
                                                                    false)),
                                                                    (String
                                                                    ((Ascii
                                                                    (false,
                                                                    true,
                                                                    true,
                                                                    true,
                                                                    false,
                                                                    true,
                                                                    true,
                                                                    false)),
                                                                    (String
                                                                    ((Ascii
                                                                    (false,
                                                                    false,
                                                                    false,
                                                                    false,
                                                                    true,
                                                                    true,
                                                                    true,
                                                                    false)),
                                                                    (String
                                                                    ((Ascii
                                                                    (true,
                                                                    false,
                                                                    true,
                                                                    false,
                                                                    true,
                                                                    true,
                                                                    true,
                                                                    false)),
                                                                    (String
                                                                    ((Ascii
                                                                    (false,
                                                                    false,
                                                                    true,
                                                                    false,
                                                                    true,
                                                                    true,
                                                                    true,
                                                                    false)),
                                                                    EmptyString))))))))))))))))))
                                                                    else 
                                                                    SY
                                                                    (String
                                                                    ((Ascii
                                                                    (false,
                                                                    true,
                                                                    false,
                                                                    false,
                                                                    false,
                                                                    true,
                                                                    true,
                                                                    false)),
                                                                    (String
                                                                    ((Ascii
                                                                    (true,
                                                                    false,
                                                                    false,
                                                                    false,
                                                                    false,
                                                                    true,
                                                                    true,
                                                                    false)),
                                                                    (String
                                                                    ((Ascii
                                                                    (false,
                                                                    false,
                                                                    true,
                                                                    false,
                                                                    false,
                                                                    true,
                                                                    true,
                                                                    false)),
                                                                    (String
                                                                    ((Ascii
                                                                    (true,
                                                                    false,
                                                                    true,
                                                                    true,
                                                                    false,
                                                                    true,
                                                                    false,
                                                                    false)),
                                                                    (String
                                                                    ((Ascii
                                                                    (true,
                                                                    false,
                                                                    false,
                                                                    true,
                                                                    false,
                                                                    true,
                                                                    true,
                                                                    false)),
                                                                    (String
                                                                    ((Ascii
                                                                    (false,
                                                                    true,
                                                                    true,
                                                                    true,
                                                                    false,
                                                                    true,
                                                                    true,
                                                                    false)),
                                                                    (String
                                                                    ((Ascii
                                                                    (false,
                                                                    false,
                                                                    false,
                                                                    false,
                                                                    true,
                                                                    true,
                                                                    true,
                                                                    false)),
                                                                    (String
                                                                    ((Ascii
                                                                    (true,
                                                                    false,
                                                                    true,
                                                                    false,
                                                                    true,
                                                                    true,
                                                                    true,
                                                                    false)),
                                                                    (String
                                                                    ((Ascii
                                                                    (false,
                                                                    false,
                                                                    true,
                                                                    false,
                                                                    true,
                                                                    true,
                                                                    true,
                                                                    false)),
                                                                    EmptyString))))))))))))))))))
                                                                    else 
                                                                    SY
                                                                    (String
                                                                    ((Ascii
                                                                    (false,
                                                                    true,
                                                                    false,
                                                                    false,
                                                                    false,
                                                                    true,
                                                                    true,
                                                                    false)),
                                                                    (String
                                                                    ((Ascii
                                                                    (true,
                                                                    false,
                                                                    false,
                                                                    false,
                                                                    false,
                                                                    true,
                                                                    true,
                                                                    false)),
                                                                    (String
                                                                    ((Ascii
                                                                    (false,
                                                                    false,
                                                                    true,
                                                                    false,
                                                                    false,
                                                                    true,
                                                                    true,
                                                                    false)),
                                                                    (String
                                                                    ((Ascii
                                                                    (true,
                                                                    false,
                                                                    true,
                                                                    true,
                                                                    false,
                                                                    true,
                                                                    false,
                                                                    false)),
                                                                    (String
                                                                    ((Ascii
                                                                    (true,
                                                                    false,
                                                                    false,
                                                                    true,
                                                                    false,
                                                                    true,
                                                                    true,
                                                                    false)),
                                                                    (String
                                                                    ((Ascii
                                                                    (false,
                                                                    true,
                                                                    true,
                                                                    true,
                                                                    false,
                                                                    true,
                                                                    true,
                                                                    false)),
                                                                    (String
                                                                    ((Ascii
                                                                    (false,
                                                                    false,
                                                                    false,
                                                                    false,
                                                                    true,
                                                                    true,
                                                                    true,
                                                                    false)),
                                                                    (String
                                                                    ((Ascii
                                                                    (true,
                                                                    false,
                                                                    true,
                                                                    false,
                                                                    true,
                                                                    true,
                                                                    true,
                                                                    false)),
                                                                    (String
                                                                    ((Ascii
                                                                    (false,
                                                                    false,
                                                                    true,
                                                                    false,
                                                                    true,
                                                                    true,
                                                                    true,
                                                                    false)),
                                                                    EmptyString))))))))))))))))))
                                                                    else 
                                                                    SY
                                                                    (String
                                                                    ((Ascii
                                                                    (false,
                                                                    true,
                                                                    false,
                                                                    false,
                                                                    false,
                                                                    true,
                                                                    true,
                                                                    false)),
                                                                    (String
                                                                    ((Ascii
                                                                    (true,
                                                                    false,
                                                                    false,
                                                                    false,
                                                                    false,
                                                                    true,
                                                                    true,
                                                                    false)),
                                                                    (String
                                                                    ((Ascii
                                                                    (false,
                                                                    false,
                                                                    true,
                                                                    false,
                                                                    false,
                                                                    true,
                                                                    true,
                                                                    false)),
                                                                    (String
                                                                    ((Ascii
                                                                    (true,
                                                                    false,
                                                                    true,
                                                                    true,
                                                                    false,
                                                                    true,
                                                                    false,
                                                                    false)),
                                                                    (String
                                                                    ((Ascii
                                                                    (true,
                                                                    false,
                                                                    false,
                                                                    true,
                                                                    false,
                                                                    true,
                                                                    true,
                                                                    false)),
                                                                    (String
                                                                    ((Ascii
                                                                    (false,
                                                                    true,
                                                                    true,
                                                                    true,
                                                                    false,
                                                                    true,
                                                                    true,
                                                                    false)),
                                                                    (String
                                                                    ((Ascii
                                                                    (false,
                                                                    false,
                                                                    false,
                                                                    false,
                                                                    true,
                                                                    true,
                                                                    true,
                                                                    false)),
                                                                    (String
                                                                    ((Ascii
                                                                    (true,
                                                                    false,
                                                                    true,
                                                                    false,
                                                                    true,
                                                                    true,
                                                                    true,
                                                                    false)),
                                                                    (String
                                                                    ((Ascii
                                                                    (false,
                                                                    false,
                                                                    true,
                                                                    false,
                                                                    true,
                                                                    true,
                                                                    true,
                                                                    false)),
                                                                    EmptyString)))))))))))))))))))
                                                                    else 
                                                                    SY
                                                                    (String
                                                                    ((Ascii
                                                                    (false,
                                                                    true,
                                                                    false,
                                                                    false,
                                                                    false,
                                                                    true,
                                                                    true,
                                                                    false)),
                                                                    (String
                                                                    ((Ascii
                                                                    (true,
                                                                    false,
                                                                    false,
                                                                    false,
                                                                    false,
                                                                    true,
                                                                    true,
                                                                    false)),
                                                                    (String
                                                                    ((Ascii
                                                                    (false,
                                                                    false,
                                                                    true,
                                                                    false,
                                                                    false,
                                                                    true,
                                                                    true,
                                                                    false)),
                                                                    (String
                                                                    ((Ascii
                                                                    (true,
                                                                    false,
                                                                    true,
                                                                    true,
                                                                    false,
                                                                    true,
                                                                    false,
                                                                    false)),
                                                                    (String
                                                                    ((Ascii
                                                                    (true,
                                                                    false,
                                                                    false,
                                                                    true,
                                                                    false,
                                                                    true,
                                                                    true,
                                                                    false)),
                                                                    (String
                                                                    ((Ascii
                                                                    (false,
                                                                    true,
                                                                    true,
                                                                    true,
                                                                    false,
                                                                    true,
                                                                    true,
                                                                    false)),
                                                                    (String
                                                                    ((Ascii
                                                                    (false,
                                                                    false,
                                                                    false,
                                                                    false,
                                                                    true,
                                                                    true,
                                                                    true,
                                                                    false)),
                                                                    (String
                                                                    ((Ascii
                                                                    (true,
                                                                    false,
                                                                    true,
                                                                    false,
                                                                    true,
                                                                    true,
                                                                    true,
                                                                    false)),
                                                                    (String
                                                                    ((Ascii
                                                                    (false,
                                                                    false,
                                                                    true,
                                                                    false,
                                                                    true,
                                                                    true,
                                                                    true,
                                                                    false)),
                                                                    EmptyString))))))))))))))))))
                                                                    else 
                                                                    SY
                                                                    (String
                                                                    ((Ascii
                                                                    (false,
                                                                    true,
                                                                    false,
                                                                    false,
                                                                    false,
                                                                    true,
                                                                    true,
                                                                    false)),
                                                                    (String
                                                                    ((Ascii
                                                                    (true,
                                                                    false,
                                                                    false,
                                                                    false,
                                                                    false,
                                                                    true,
                                                                    true,
                                                                    false)),
                                                                    (String
                                                                    ((Ascii
                                                                    (false,
                                                                    false,
                                                                    true,
                                                                    false,
                                                                    false,
                                                                    true,
                                                                    true,
                                                                    false)),
                                                                    (String
                                                                    ((Ascii
                                                                    (true,
                                                                    false,
                                                                    true,
                                                                    true,
                                                                    false,
                                                                    true,
                                                                    false,
                                                                    false)),
                                                                    (String
                                                                    ((Ascii
                                                                    (true,
                                                                    false,
                                                                    false,
                                                                    true,
                                                                    false,
                                                                    true,
                                                                    true,
                                                                    false)),
                                                                    (String
                                                                    ((Ascii
                                                                    (false,
                                                                    true,
                                                                    true,
                                                                    true,
                                                                    false,
                                                                    true,
                                                                    true,
                                                                    false)),
                                                                    (String
                                                                    ((Ascii
                                                                    (false,
                                                                    false,
                                                                    false,
                                                                    false,
                                                                    true,
                                                                    true,
                                                                    true,
                                                                    false)),
                                                                    (String
                                                                    ((Ascii
                                                                    (true,
                                                                    false,
                                                                    true,
                                                                    false,
                                                                    true,
                                                                    true,
                                                                    true,
                                                                    false)),
                                                                    (String
                                                                    ((Ascii
                                                                    (false,
                                                                    false,
                                                                    true,
                                                                    false,
                                                                    true,
                                                                    true,
                                                                    true,
                                                                    false)),
                                                                    EmptyString))))))))))))))))))
                                                                    else 
                                                                    SY
                                                                    (String
                                                                    ((Ascii
                                                                    (false,
                                                                    true,
                                                                    false,
                                                                    false,
                                                                    false,
                                                                    true,
                                                                    true,
                                                                    false)),
                                                                    (String
                                                                    ((Ascii
                                                                    (true,
                                                                    false,
                                                                    false,
                                                                    false,
                                                                    false,
                                                                    true,
                                                                    true,
                                                                    false)),
                                                                    (String
                                                                    ((Ascii
                                                                    (false,
                                                                    false,
                                                                    true,
                                                                    false,
                                                                    false,
                                                                    true,
                                                                    true,
                                                                    false)),
                                                                    (String
                                                                    ((Ascii
                                                                    (true,
                                                                    false,
                                                                    true,
                                                                    true,
                                                                    false,
                                                                    true,
                                                                    false,
                                                                    false)),
                                                                    (String
                                                                    ((Ascii
                                                                    (true,
                                                                    false,
                                                                    false,
                                                                    true,
                                                                    false,
                                                                    true,
                                                                    true,
                                                                    false)),
                                                                    (String
                                                                    ((Ascii
                                                                    (false,
                                                                    true,
                                                                    true,
                                                                    true,
                                                                    false,
                                                                    true,
                                                                    true,
                                                                    false)),
                                                                    (String
                                                                    ((Ascii
                                                                    (false,
                                                                    false,
                                                                    false,
                                                                    false,
                                                                    true,
                                                                    true,
                                                                    true,
                                                                    false)),
                                                                    (String
                                                                    ((Ascii
                                                                    (true,
                                                                    false,
                                                                    true,
                                                                    false,
                                                                    true,
                                                                    true,
                                                                    true,
                                                                    false)),
                                                                    (String
                                                                    ((Ascii
                                                                    (false,
                                                                    false,
                                                                    true,
                                                                    false,
                                                                    true,
                                                                    true,
                                                                    true,
                                                                    false)),
                                                                    EmptyString))))))))))))))))))
                                                                    else 
                                                                    SY
                                                                    (String
                                                                    ((Ascii
                                                                    (false,
                                                                    true,
                                                                    false,
                                                                    false,
                                                                    false,
                                                                    true,
                                                                    true,
                                                                    false)),
                                                                    (String
                                                                    ((Ascii
                                                                    (true,
                                                                    false,
                                                                    false,
                                                                    false,
                                                                    false,
                                                                    true,
                                                                    true,
                                                                    false)),
                                                                    (String
                                                                    ((Ascii
                                                                    (false,
                                                                    false,
                                                                    true,
                                                                    false,
                                                                    false,
                                                                    true,
                                                                    true,
                                                                    false)),
                                                                    (String
                                                                    ((Ascii
                                                                    (true,
                                                                    false,
                                                                    true,
                                                                    true,
                                                                    false,
                                                                    true,
                                                                    false,
                                                                    false)),
                                                                    (String
                                                                    ((Ascii
                                                                    (true,
                                                                    false,
                                                                    false,
                                                                    true,
                                                                    false,
                                                                    true,
                                                                    true,
                                                                    false)),
                                                                    (String
                                                                    ((Ascii
                                                                    (false,
                                                                    true,
                                                                    true,
                                                                    true,
                                                                    false,
                                                                    true,
                                                                    true,
                                                                    false)),
                                                                    (String
                                                                    ((Ascii
                                                                    (false,
                                                                    false,
                                                                    false,
                                                                    false,
                                                                    true,
                                                                    true,
                                                                    true,
                                                                    false)),
                                                                    (String
                                                                    ((Ascii
                                                                    (true,
                                                                    false,
                                                                    true,
                                                                    false,
                                                                    true,
                                                                    true,
                                                                    true,
                                                                    false)),
                                                                    (String
                                                                    ((Ascii
                                                                    (false,
                                                                    false,
                                                                    true,
                                                                    false,
                                                                    true,
                                                                    true,
                                                                    true,
                                                                    false)),
                                                                    EmptyString)))))))))))))))))))
                                                                    else 
                                                                    SY
                                                                    (String
                                                                    ((Ascii
                                                                    (false,
                                                                    true,
                                                                    false,
                                                                    false,
                                                                    false,
                                                                    true,
                                                                    true,
                                                                    false)),
                                                                    (String
                                                                    ((Ascii
                                                                    (true,
                                                                    false,
                                                                    false,
                                                                    false,
                                                                    false,
                                                                    true,
                                                                    true,
                                                                    false)),
                                                                    (String
                                                                    ((Ascii
                                                                    (false,
                                                                    false,
                                                                    true,
                                                                    false,
                                                                    false,
                                                                    true,
                                                                    true,
                                                                    false)),
                                                                    (String
                                                                    ((Ascii
                                                                    (true,
                                                                    false,
                                                                    true,
                                                                    true,
                                                                    false,
                                                                    true,
                                                                    false,
                                                                    false)),
                                                                    (String
                                                                    ((Ascii
                                                                    (true,
                                                                    false,
                                                                    false,
                                                                    true,
                                                                    false,
                                                                    true,
                                                                    true,
                                                                    false)),
                                                                    (String
                                                                    ((Ascii
                                                                    (false,
                                                                    true,
                                                                    true,
                                                                    true,
                                                                    false,
                                                                    true,
                                                                    true,
                                                                    false)),
                                                                    (String
                                                                    ((Ascii
                                                                    (false,
                                                                    false,
                                                                    false,
                                                                    false,
                                                                    true,
                                                                    true,
                                                                    true,
                                                                    false)),
                                                                    (String
                                                                    ((Ascii
                                                                    (true,
                                                                    false,
                                                                    true,
                                                                    false,
                                                                    true,
                                                                    true,
                                                                    true,
                                                                    false)),
                                                                    (String
                                                                    ((Ascii
                                                                    (false,
                                                                    false,
                                                                    true,
                                                                    false,
                                                                    true,
                                                                    true,
                                                                    true,
                                                                    false)),
                                                                    EmptyString))))))))))))))))))
                                                                    else 
                                                                    SY
                                                                    (String
                                                                    ((Ascii
                                                                    (false,
                                                                    true,
                                                                    false,
                                                                    false,
                                                                    false,
                                                                    true,
                                                                    true,
                                                                    false)),
                                                                    (String
                                                                    ((Ascii
                                                                    (true,
                                                                    false,
                                                                    false,
                                                                    false,
                                                                    false,
                                                                    true,
                                                                    true,
                                                                    false)),
                                                                    (String
                                                                    ((Ascii
                                                                    (false,
                                                                    false,
                                                                    true,
                                                                    false,
                                                                    false,
                                                                    true,
                                                                    true,
                                                                    false)),
                                                                    (String
                                                                    ((Ascii
                                                                    (true,
                                                                    false,
                                                                    true,
                                                                    true,
                                                                    false,
                                                                    true,
                                                                    false,
                                                                    false)),
                                                                    (String
                                                                    ((Ascii
                                                                    (true,
                                                                    false,
                                                                    false,
                                                                    true,
                                                                    false,
                                                                    true,
                                                                    true,
                                                                    false)),
                                                                    (String
                                                                    ((Ascii
                                                                    (false,
                                                                    true,
                                                                    true,
                                                                    true,
                                                                    false,
                                                                    true,
                                                                    true,
                                                                    false)),
                                                                    (String
                                                                    ((Ascii
                                                                    (false,
                                                                    false,
                                                                    false,
                                                                    false,
                                                                    true,
                                                                    true,
                                                                    true,
                                                                    false)),
                                                                    (String
                                                                    ((Ascii
                                                                    (true,
                                                                    false,
                                                                    true,
                                                                    false,
                                                                    true,
                                                                    true,
                                                                    true,
                                                                    false)),
                                                                    (String
                                                                    ((Ascii
                                                                    (false,
                                                                    false,
                                                                    true,
                                                                    false,
                                                                    true,
                                                                    true,
                                                                    true,
                                                                    false)),
                                                                    EmptyString))))))))))))))))))
                                                                    else 
                                                                    SY
                                                                    (String
                                                                    ((Ascii
                                                                    (false,
                                                                    true,
                                                                    false,
                                                                    false,
                                                                    false,
                                                                    true,
                                                                    true,
                                                                    false)),
                                                                    (String
                                                                    ((Ascii
                                                                    (true,
                                                                    false,
                                                                    false,
                                                                    false,
                                                                    false,
                                                                    true,
                                                                    true,
                                                                    false)),
                                                                    (String
                                                                    ((Ascii
                                                                    (false,
                                                                    false,
                                                                    true,
                                                                    false,
                                                                    false,
                                                                    true,
                                                                    true,
                                                                    false)),
                                                                    (String
                                                                    ((Ascii
                                                                    (true,
                                                                    false,
                                                                    true,
                                                                    true,
                                                                    false,
                                                                    true,
                                                                    false,
                                                                    false)),
                                                                    (String
                                                                    ((Ascii
                                                                    (true,
                                                                    false,
                                                                    false,
                                                                    true,
                                                                    false,
                                                                    true,
                                                                    true,
                                                                    false)),
                                                                    (String
                                                                    ((Ascii
                                                                    (false,
                                                                    true,
                                                                    true,
                                                                    true,
                                                                    false,
                                                                    true,
                                                                    true,
                                                                    false)),
                                                                    (String
                                                                    ((Ascii
                                                                    (false,
                                                                    false,
                                                                    false,
                                                                    false,
                                                                    true,
                                                                    true,
                                                                    true,
                                                                    false)),
                                                                    (String
                                                                    ((Ascii
                                                                    (true,
                                                                    false,
                                                                    true,
                                                                    false,
                                                                    true,
                                                                    true,
                                                                    true,
                                                                    false)),
                                                                    (String
                                                                    ((Ascii
                                                                    (false,
                                                                    false,
                                                                    true,
                                                                    false,
                                                                    true,
                                                                    true,
                                                                    true,
                                                                    false)),
                                                                    EmptyString))))))))))))))))))
                                                                    else 
                                                                    SY
                                                                    (String
                                                                    ((Ascii
                                                                    (false,
                                                                    true,
                                                                    false,
                                                                    false,
                                                                    false,
                                                                    true,
                                                                    true,
                                                                    false)),
                                                                    (String
                                                                    ((Ascii
                                                                    (true,
                                                                    false,
                                                                    false,
                                                                    false,
                                                                    false,
                                                                    true,
                                                                    true,
                                                                    false)),
                                                                    (String
                                                                    ((Ascii
                                                                    (false,
                                                                    false,
                                                                    true,
                                                                    false,
                                                                    false,
                                                                    true,
                                                                    true,
                                                                    false)),
                                                                    (String
                                                                    ((Ascii
                                                                    (true,
                                                                    false,
                                                                    true,
                                                                    true,
                                                                    false,
                                                                    true,
                                                                    false,
                                                                    false)),
                                                                    (String
                                                                    ((Ascii
                                                                    (true,
                                                                    false,
                                                                    false,
                                                                    true,
                                                                    false,
                                                                    true,
                                                                    true,
                                                                    false)),
                                                                    (String
                                                                    ((Ascii
                                                                    (false,
                                                                    true,
                                                                    true,
                                                                    true,
                                                                    false,
                                                                    true,
                                                                    true,
                                                                    false)),
                                                                    (String
                                                                    ((Ascii
                                                                    (false,
                                                                    false,
                                                                    false,
                                                                    false,
                                                                    true,
                                                                    true,
                                                                    true,
                                                                    false)),
                                                                    (String
                                                                    ((Ascii
                                                                    (true,
                                                                    false,
                                                                    true,
                                                                    false,
                                                                    true,
                                                                    true,
                                                                    true,
                                                                    false)),
                                                                    (String
                                                                    ((Ascii
                                                                    (false,
                                                                    false,
                                                                    true,
                                                                    false,
                                                                    true,
                                                                    true,
                                                                    true,
                                                                    false)),
                                                                    EmptyString)))))))))))))))))))
                                                                    else 
                                                                    SY
                                                                    (String
                                                                    ((Ascii
                                                                    (false,
                                                                    true,
                                                                    false,
                                                                    false,
                                                                    false,
                                                                    true,
                                                                    true,
                                                                    false)),
                                                                    (String
                                                                    ((Ascii
                                                                    (true,
                                                                    false,
                                                                    false,
                                                                    false,
                                                                    false,
                                                                    true,
                                                                    true,
                                                                    false)),
                                                                    (String
                                                                    ((Ascii
                                                                    (false,
                                                                    false,
                                                                    true,
                                                                    false,
                                                                    false,
                                                                    true,
                                                                    true,
                                                                    false)),
                                                                    (String
                                                                    ((Ascii
                                                                    (true,
                                                                    false,
                                                                    true,
                                                                    true,
                                                                    false,
                                                                    true,
                                                                    false,
                                                                    false)),
                                                                    (String
                                                                    ((Ascii
                                                                    (true,
                                                                    false,
                                                                    false,
                                                                    true,
                                                                    false,
                                                                    true,
                                                                    true,
                                                                    false)),
                                                                    (String
                                                                    ((Ascii
                                                                    (false,
                                                                    true,
                                                                    true,
                                                                    true,
                                                                    false,
                                                                    true,
                                                                    true,
                                                                    false)),
                                                                    (String
                                                                    ((Ascii
                                                                    (false,
                                                                    false,
                                                                    false,
                                                                    false,
                                                                    true,
                                                                    true,
                                                                    true,
                                                                    false)),
                                                                    (String
                                                                    ((Ascii
                                                                    (true,
                                                                    false,
                                                                    true,
                                                                    false,
                                                                    true,
                                                                    true,
                                                                    true,
                                                                    false)),
                                                                    (String
                                                                    ((Ascii
                                                                    (false,
                                                                    false,
                                                                    true,
                                                                    false,
                                                                    true,
                                                                    true,
                                                                    true,
                                                                    false)),
                                                                    EmptyString))))))))))))))))))
                                                                    else 
                                                                    SY
                                                                    (String
                                                                    ((Ascii
                                                                    (false,
                                                                    true,
                                                                    false,
                                                                    false,
                                                                    false,
                                                                    true,
                                                                    true,
                                                                    false)),
                                                                    (String
                                                                    ((Ascii
                                                                    (true,
                                                                    false,
                                                                    false,
                                                                    false,
                                                                    false,
                                                                    true,
                                                                    true,
                                                                    false)),
                                                                    (String
                                                                    ((Ascii
                                                                    (false,
                                                                    false,
                                                                    true,
                                                                    false,
                                                                    false,
                                                                    true,
                                                                    true,
                                                                    false)),
                                                                    (String
                                                                    ((Ascii
                                                                    (true,
                                                                    false,
                                                                    true,
                                                                    true,
                                                                    false,
                                                                    true,
                                                                    false,
                                                                    false)),
                                                                    (String
                                                                    ((Ascii
                                                                    (true,
                                                                    false,
                                                                    false,
                                                                    true,
                                                                    false,
                                                                    true,
                                                                    true,
                                                                    false)),
                                                                    (String
                                                                    ((Ascii
                                                                    (false,
                                                                    true,
                                                                    true,
                                                                    true,
                                                                    false,
                                                                    true,
                                                                    true,
                                                                    false)),
                                                                    (String
                                                                    ((Ascii
                                                                    (false,
                                                                    false,
                                                                    false,
                                                                    false,
                                                                    true,
                                                                    true,
                                                                    true,
                                                                    false)),
                                                                    (String
                                                                    ((Ascii
                                                                    (true,
                                                                    false,
                                                                    true,
                                                                    false,
                                                                    true,
                                                                    true,
                                                                    true,
                                                                    false)),
                                                                    (String
                                                                    ((Ascii
                                                                    (false,
                                                                    false,
                                                                    true,
                                                                    false,
                                                                    true,
                                                                    true,
                                                                    true,
                                                                    false)),
                                                                    EmptyString))))))))))))))))))
                                                      else SY (String ((Ascii
                                                             (false, true,
                                                             false, false,
                                                             false, true,
                                                             true, false)),
                                                             (String ((Ascii
                                                             (true, false,
                                                             false, false,
                                                             false, true,
                                                             true, false)),
                                                             (String ((Ascii
                                                             (false, false,
                                                             true, false,
                                                             false, true,
                                                             true, false)),
                                                             (String ((Ascii
                                                             (true, false,
                                                             true, true,
                                                             false, true,
                                                             false, false)),
                                                             (String ((Ascii
                                                             (true, false,
                                                             false, true,
                                                             false, true,
                                                             true, false)),
                                                             (String ((Ascii
                                                             (false, true,
                                                             true, true,
                                                             false, true,
                                                             true, false)),
                                                             (String ((Ascii
                                                             (false, false,
                                                             false, false,
                                                             true, true,
                                                             true, false)),
                                                             (String ((Ascii
                                                             (true, false,
                                                             true, false,
                                                             true, true,
                                                             true, false)),
                                                             (String ((Ascii
                                                             (false, false,
                                                             true, false,
                                                             true, true,
                                                             true, false)),
                                                             EmptyString)))))))))))))))))))
                                         else SY (String ((Ascii (false,
                                                true, false, false, false,
                                                true, true, false)), (String
                                                ((Ascii (true, false, false,
                                                false, false, true, true,
                                                false)), (String ((Ascii
                                                (false, false, true, false,
                                                false, true, true, false)),
                                                (String ((Ascii (true, false,
                                                true, true, false, true,
                                                false, false)), (String
                                                ((Ascii (true, false, false,
                                                true, false, true, true,
                                                false)), (String ((Ascii
                                                (false, true, true, true,
                                                false, true, true, false)),
                                                (String ((Ascii (false,
                                                false, false, false, true,
                                                true, true, false)), (String
                                                ((Ascii (true, false, true,
                                                false, true, true, true,
                                                false)), (String ((Ascii
                                                (false, false, true, false,
                                                true, true, true, false)),
                                                EmptyString))))))))))))))))))
                                    else SY (String ((Ascii (false, true,
                                           false, false, false, true, true,
                                           false)), (String ((Ascii (true,
                                           false, false, false, false, true,
                                           true, false)), (String ((Ascii
                                           (false, false, true, false, false,
                                           true, true, false)), (String
                                           ((Ascii (true, false, true, true,
                                           false, true, false, false)),
                                           (String ((Ascii (true, false,
                                           false, true, false, true, true,
                                           false)), (String ((Ascii (false,
                                           true, true, true, false, true,
                                           true, false)), (String ((Ascii
                                           (false, false, false, false, true,
                                           true, true, false)), (String
                                           ((Ascii (true, false, true, false,
                                           true, true, true, false)), (String
                                           ((Ascii (false, false, true,
                                           false, true, true, true, false)),
                                           EmptyString))))))))))))))))))
                     else SY (String ((Ascii (false, true, false, false,
                            false, true, true, false)), (String ((Ascii
                            (true, false, false, false, false, true, true,
                            false)), (String ((Ascii (false, false, true,
                            false, false, true, true, false)), (String
                            ((Ascii (true, false, true, true, false, true,
                            false, false)), (String ((Ascii (true, false,
                            false, true, false, true, true, false)), (String
                            ((Ascii (false, true, true, true, false, true,
                            true, false)), (String ((Ascii (false, false,
                            false, false, true, true, true, false)), (String
                            ((Ascii (true, false, true, false, true, true,
                            true, false)), (String ((Ascii (false, false,
                            true, false, true, true, true, false)),
                            EmptyString))))))))))))))))))
                else SY (String ((Ascii (false, true, false, false, false,
                       true, true, false)), (String ((Ascii (true, false,
                       false, false, false, true, true, false)), (String
                       ((Ascii (false, false, true, false, false, true, true,
                       false)), (String ((Ascii (true, false, true, true,
                       false, true, false, false)), (String ((Ascii (true,
                       false, false, true, false, true, true, false)),
                       (String ((Ascii (false, true, true, true, false, true,
                       true, false)), (String ((Ascii (false, false, false,
                       false, true, true, true, false)), (String ((Ascii
                       (true, false, true, false, true, true, true, false)),
                       (String ((Ascii (false, false, true, false, true,
                       true, true, false)), EmptyString)))))))))))))))))))
      | _ ->
        SY (String ((Ascii (false, true, false, false, false, true, true,
          false)), (String ((Ascii (true, false, false, false, false, true,
          true, false)), (String ((Ascii (false, false, true, false, false,
          true, true, false)), (String ((Ascii (true, false, true, true,
          false, true, false, false)), (String ((Ascii (true, false, false,
          true, false, true, true, false)), (String ((Ascii (false, true,
          true, true, false, true, true, false)), (String ((Ascii (false,
          false, false, false, true, true, true, false)), (String ((Ascii
          (true, false, true, false, true, true, true, false)), (String
          ((Ascii (false, false, true, false, true, true, true, false)),
          EmptyString))))))))))))))))))))
| _ ->
  SY (String ((Ascii (false, true, false, false, false, true, true, false)),
    (String ((Ascii (true, false, false, false, false, true, true, false)),
    (String ((Ascii (false, false, true, false, false, true, true, false)),
    (String ((Ascii (true, false, true, true, false, true, false, false)),
    (String ((Ascii (true, false, false, true, false, true, true, false)),
    (String ((Ascii (false, true, true, true, false, true, true, false)),
    (String ((Ascii (false, false, false, false, true, true, true, false)),
    (String ((Ascii (true, false, true, false, true, true, true, false)),
    (String ((Ascii (false, false, true, false, true, true, true, false)),
    EmptyString))))))))))))))))))

(** val dispatch : sx -> sx **)

let dispatch = function
| SL l ->
  (match l with
   | [] ->
     SY (String ((Ascii (true, false, true, false, true, true, true, false)),
       (String ((Ascii (false, true, true, true, false, true, true, false)),
       (String ((Ascii (true, true, false, true, false, true, true, false)),
       (String ((Ascii (false, true, true, true, false, true, true, false)),
       (String ((Ascii (true, true, true, true, false, true, true, false)),
       (String ((Ascii (true, true, true, false, true, true, true, false)),
       (String ((Ascii (false, true, true, true, false, true, true, false)),
       (String ((Ascii (true, false, true, true, false, true, false, false)),
       (String ((Ascii (true, false, true, false, false, true, true, false)),
       (String ((Ascii (false, true, true, true, false, true, true, false)),
       (String ((Ascii (false, false, true, false, true, true, true, false)),
       (String ((Ascii (false, true, false, false, true, true, true, false)),
       (String ((Ascii (true, false, false, true, true, true, true, false)),
       EmptyString))))))))))))))))))))))))))
   | s :: l0 ->
     (match s with
      | SY s0 ->
        (match s0 with
         | EmptyString ->
           SY (String ((Ascii (true, false, true, false, true, true, true,
             false)), (String ((Ascii (false, true, true, true, false, true,
             true, false)), (String ((Ascii (true, true, false, true, false,
             true, true, false)), (String ((Ascii (false, true, true, true,
             false, true, true, false)), (String ((Ascii (true, true, true,
             true, false, true, true, false)), (String ((Ascii (true, true,
             true, false, true, true, true, false)), (String ((Ascii (false,
             true, true, true, false, true, true, false)), (String ((Ascii
             (true, false, true, true, false, true, false, false)), (String
             ((Ascii (true, false, true, false, false, true, true, false)),
             (String ((Ascii (false, true, true, true, false, true, true,
             false)), (String ((Ascii (false, false, true, false, true, true,
             true, false)), (String ((Ascii (false, true, false, false, true,
             true, true, false)), (String ((Ascii (true, false, false, true,
             true, true, true, false)), EmptyString))))))))))))))))))))))))))
         | String (a, s1) ->
           let Ascii (b, b0, b1, b2, b3, b4, b5, b6) = a in
           if b
           then if b0
                then if b1
                     then SY (String ((Ascii (true, false, true, false, true,
                            true, true, false)), (String ((Ascii (false,
                            true, true, true, false, true, true, false)),
                            (String ((Ascii (true, true, false, true, false,
                            true, true, false)), (String ((Ascii (false,
                            true, true, true, false, true, true, false)),
                            (String ((Ascii (true, true, true, true, false,
                            true, true, false)), (String ((Ascii (true, true,
                            true, false, true, true, true, false)), (String
                            ((Ascii (false, true, true, true, false, true,
                            true, false)), (String ((Ascii (true, false,
                            true, true, false, true, false, false)), (String
                            ((Ascii (true, false, true, false, false, true,
                            true, false)), (String ((Ascii (false, true,
                            true, true, false, true, true, false)), (String
                            ((Ascii (false, false, true, false, true, true,
                            true, false)), (String ((Ascii (false, true,
                            false, false, true, true, true, false)), (String
                            ((Ascii (true, false, false, true, true, true,
                            true, false)),
                            EmptyString))))))))))))))))))))))))))
                     else if b2
                          then SY (String ((Ascii (true, false, true, false,
                                 true, true, true, false)), (String ((Ascii
                                 (false, true, true, true, false, true, true,
                                 false)), (String ((Ascii (true, true, false,
                                 true, false, true, true, false)), (String
                                 ((Ascii (false, true, true, true, false,
                                 true, true, false)), (String ((Ascii (true,
                                 true, true, true, false, true, true,
                                 false)), (String ((Ascii (true, true, true,
                                 false, true, true, true, false)), (String
                                 ((Ascii (false, true, true, true, false,
                                 true, true, false)), (String ((Ascii (true,
                                 false, true, true, false, true, false,
                                 false)), (String ((Ascii (true, false, true,
                                 false, false, true, true, false)), (String
                                 ((Ascii (false, true, true, true, false,
                                 true, true, false)), (String ((Ascii (false,
                                 false, true, false, true, true, true,
                                 false)), (String ((Ascii (false, true,
                                 false, false, true, true, true, false)),
                                 (String ((Ascii (true, false, false, true,
                                 true, true, true, false)),
                                 EmptyString))))))))))))))))))))))))))
                          else if b3
                               then SY (String ((Ascii (true, false, true,
                                      false, true, true, true, false)),
                                      (String ((Ascii (false, true, true,
                                      true, false, true, true, false)),
                                      (String ((Ascii (true, true, false,
                                      true, false, true, true, false)),
                                      (String ((Ascii (false, true, true,
                                      true, false, true, true, false)),
                                      (String ((Ascii (true, true, true,
                                      true, false, true, true, false)),
                                      (String ((Ascii (true, true, true,
                                      false, true, true, true, false)),
                                      (String ((Ascii (false, true, true,
                                      true, false, true, true, false)),
                                      (String ((Ascii (true, false, true,
                                      true, false, true, false, false)),
                                      (String ((Ascii (true, false, true,
                                      false, false, true, true, false)),
                                      (String ((Ascii (false, true, true,
                                      true, false, true, true, false)),
                                      (String ((Ascii (false, false, true,
                                      false, true, true, true, false)),
                                      (String ((Ascii (false, true, false,
                                      false, true, true, true, false)),
                                      (String ((Ascii (true, false, false,
                                      true, true, true, true, false)),
                                      EmptyString))))))))))))))))))))))))))
                               else if b4
                                    then SY (String ((Ascii (true, false,
                                           true, false, true, true, true,
                                           false)), (String ((Ascii (false,
                                           true, true, true, false, true,
                                           true, false)), (String ((Ascii
                                           (true, true, false, true, false,
                                           true, true, false)), (String
                                           ((Ascii (false, true, true, true,
                                           false, true, true, false)),
                                           (String ((Ascii (true, true, true,
                                           true, false, true, true, false)),
                                           (String ((Ascii (true, true, true,
                                           false, true, true, true, false)),
                                           (String ((Ascii (false, true,
                                           true, true, false, true, true,
                                           false)), (String ((Ascii (true,
                                           false, true, true, false, true,
                                           false, false)), (String ((Ascii
                                           (true, false, true, false, false,
                                           true, true, false)), (String
                                           ((Ascii (false, true, true, true,
                                           false, true, true, false)),
                                           (String ((Ascii (false, false,
                                           true, false, true, true, true,
                                           false)), (String ((Ascii (false,
                                           true, false, false, true, true,
                                           true, false)), (String ((Ascii
                                           (true, false, false, true, true,
                                           true, true, false)),
                                           EmptyString))))))))))))))))))))))))))
                                    else if b5
                                         then if b6
                                              then SY (String ((Ascii (true,
                                                     false, true, false,
                                                     true, true, true,
                                                     false)), (String ((Ascii
                                                     (false, true, true,
                                                     true, false, true, true,
                                                     false)), (String ((Ascii
                                                     (true, true, false,
                                                     true, false, true, true,
                                                     false)), (String ((Ascii
                                                     (false, true, true,
                                                     true, false, true, true,
                                                     false)), (String ((Ascii
                                                     (true, true, true, true,
                                                     false, true, true,
                                                     false)), (String ((Ascii
                                                     (true, true, true,
                                                     false, true, true, true,
                                                     false)), (String ((Ascii
                                                     (false, true, true,
                                                     true, false, true, true,
                                                     false)), (String ((Ascii
                                                     (true, false, true,
                                                     true, false, true,
                                                     false, false)), (String
                                                     ((Ascii (true, false,
                                                     true, false, false,
                                                     true, true, false)),
                                                     (String ((Ascii (false,
                                                     true, true, true, false,
                                                     true, true, false)),
                                                     (String ((Ascii (false,
                                                     false, true, false,
                                                     true, true, true,
                                                     false)), (String ((Ascii
                                                     (false, true, false,
                                                     false, true, true, true,
                                                     false)), (String ((Ascii
                                                     (true, false, false,
                                                     true, true, true, true,
                                                     false)),
                                                     EmptyString))))))))))))))))))))))))))
                                              else (match s1 with
                                                    | EmptyString ->
                                                      SY (String ((Ascii
                                                        (true, false, true,
                                                        false, true, true,
                                                        true, false)),
                                                        (String ((Ascii
                                                        (false, true, true,
                                                        true, false, true,
                                                        true, false)),
                                                        (String ((Ascii
                                                        (true, true, false,
                                                        true, false, true,
                                                        true, false)),
                                                        (String ((Ascii
                                                        (false, true, true,
                                                        true, false, true,
                                                        true, false)),
                                                        (String ((Ascii
                                                        (true, true, true,
                                                        true, false, true,
                                                        true, false)),
                                                        (String ((Ascii
                                                        (true, true, true,
                                                        false, true, true,
                                                        true, false)),
                                                        (String ((Ascii
                                                        (false, true, true,
                                                        true, false, true,
                                                        true, false)),
                                                        (String ((Ascii
                                                        (true, false, true,
                                                        true, false, true,
                                                        false, false)),
                                                        (String ((Ascii
                                                        (true, false, true,
                                                        false, false, true,
                                                        true, false)),
                                                        (String ((Ascii
                                                        (false, true, true,
                                                        true, false, true,
                                                        true, false)),
                                                        (String ((Ascii
                                                        (false, false, true,
                                                        false, true, true,
                                                        true, false)),
                                                        (String ((Ascii
                                                        (false, true, false,
                                                        false, true, true,
                                                        true, false)),
                                                        (String ((Ascii
                                                        (true, false, false,
                                                        true, true, true,
                                                        true, false)),
                                                        EmptyString))))))))))))))))))))))))))
                                                    | String (a0, s2) ->
                                                      let Ascii (b7, b8, b9,
                                                                 b10, b11,
                                                                 b12, b13, b14) =
                                                        a0
                                                      in
                                                      if b7
                                                      then SY (String ((Ascii
                                                             (true, false,
                                                             true, false,
                                                             true, true,
                                                             true, false)),
                                                             (String ((Ascii
                                                             (false, true,
                                                             true, true,
                                                             false, true,
                                                             true, false)),
                                                             (String ((Ascii
                                                             (true, true,
                                                             false, true,
                                                             false, true,
                                                             true, false)),
                                                             (String ((Ascii
                                                             (false, true,
                                                             true, true,
                                                             false, true,
                                                             true, false)),
                                                             (String ((Ascii
                                                             (true, true,
                                                             true, true,
                                                             false, true,
                                                             true, false)),
                                                             (String ((Ascii
                                                             (true, true,
                                                             true, false,
                                                             true, true,
                                                             true, false)),
                                                             (String ((Ascii
                                                             (false, true,
                                                             true, true,
                                                             false, true,
                                                             true, false)),
                                                             (String ((Ascii
                                                             (true, false,
                                                             true, true,
                                                             false, true,
                                                             false, false)),
                                                             (String ((Ascii
                                                             (true, false,
                                                             true, false,
                                                             false, true,
                                                             true, false)),
                                                             (String ((Ascii
                                                             (false, true,
                                                             true, true,
                                                             false, true,
                                                             true, false)),
                                                             (String ((Ascii
                                                             (false, false,
                                                             true, false,
                                                             true, true,
                                                             true, false)),
                                                             (String ((Ascii
                                                             (false, true,
                                                             false, false,
                                                             true, true,
                                                             true, false)),
                                                             (String ((Ascii
                                                             (true, false,
                                                             false, true,
                                                             true, true,
                                                             true, false)),
                                                             EmptyString))))))))))))))))))))))))))
                                                      else if b8
                                                           then SY (String
                                                                  ((Ascii
                                                                  (true,
                                                                  false,
                                                                  true,
                                                                  false,
                                                                  true, true,
                                                                  true,
                                                                  false)),
                                                                  (String
                                                                  ((Ascii
                                                                  (false,
                                                                  true, true,
                                                                  true,
                                                                  false,
                                                                  true, true,
                                                                  false)),
                                                                  (String
                                                                  ((Ascii
                                                                  (true,
                                                                  true,
                                                                  false,
                                                                  true,
                                                                  false,
                                                                  true, true,
                                                                  false)),
                                                                  (String
                                                                  ((Ascii
                                                                  (false,
                                                                  true, true,
                                                                  true,
                                                                  false,
                                                                  true, true,
                                                                  false)),
                                                                  (String
                                                                  ((Ascii
                                                                  (true,
                                                                  true, true,
                                                                  true,
                                                                  false,
                                                                  true, true,
                                                                  false)),
                                                                  (String
                                                                  ((Ascii
                                                                  (true,
                                                                  true, true,
                                                                  false,
                                                                  true, true,
                                                                  true,
                                                                  false)),
                                                                  (String
                                                                  ((Ascii
                                                                  (false,
                                                                  true, true,
                                                                  true,
                                                                  false,
                                                                  true, true,
                                                                  false)),
                                                                  (String
                                                                  ((Ascii
                                                                  (true,
                                                                  false,
                                                                  true, true,
                                                                  false,
                                                                  true,
                                                                  false,
                                                                  false)),
                                                                  (String
                                                                  ((Ascii
                                                                  (true,
                                                                  false,
                                                                  true,
                                                                  false,
                                                                  false,
                                                                  true, true,
                                                                  false)),
                                                                  (String
                                                                  ((Ascii
                                                                  (false,
                                                                  true, true,
                                                                  true,
                                                                  false,
                                                                  true, true,
                                                                  false)),
                                                                  (String
                                                                  ((Ascii
                                                                  (false,
                                                                  false,
                                                                  true,
                                                                  false,
                                                                  true, true,
                                                                  true,
                                                                  false)),
                                                                  (String
                                                                  ((Ascii
                                                                  (false,
                                                                  true,
                                                                  false,
                                                                  false,
                                                                  true, true,
                                                                  true,
                                                                  false)),
                                                                  (String
                                                                  ((Ascii
                                                                  (true,
                                                                  false,
                                                                  false,
                                                                  true, true,
                                                                  true, true,
                                                                  false)),
                                                                  EmptyString))))))))))))))))))))))))))
                                                           else if b9
                                                                then 
                                                                  SY (String
                                                                    ((Ascii
                                                                    (true,
                                                                    false,
                                                                    true,
                                                                    false,
                                                                    true,
                                                                    true,
                                                                    true,
                                                                    false)),
                                                                    (String
                                                                    ((Ascii
                                                                    (false,
                                                                    true,
                                                                    true,
                                                                    true,
                                                                    false,
                                                                    true,
                                                                    true,
                                                                    false)),
                                                                    (String
                                                                    ((Ascii
                                                                    (true,
                                                                    true,
                                                                    false,
                                                                    true,
                                                                    false,
                                                                    true,
                                                                    true,
                                                                    false)),
                                                                    (String
                                                                    ((Ascii
                                                                    (false,
                                                                    true,
                                                                    true,
                                                                    true,
                                                                    false,
                                                                    true,
                                                                    true,
                                                                    false)),
                                                                    (String
                                                                    ((Ascii
                                                                    (true,
                                                                    true,
                                                                    true,
                                                                    true,
                                                                    false,
                                                                    true,
                                                                    true,
                                                                    false)),
                                                                    (String
                                                                    ((Ascii
                                                                    (true,
                                                                    true,
                                                                    true,
                                                                    false,
                                                                    true,
                                                                    true,
                                                                    true,
                                                                    false)),
                                                                    (String
                                                                    ((Ascii
                                                                    (false,
                                                                    true,
                                                                    true,
                                                                    true,
                                                                    false,
                                                                    true,
                                                                    true,
                                                                    false)),
                                                                    (String
                                                                    ((Ascii
                                                                    (true,
                                                                    false,
                                                                    true,
                                                                    true,
                                                                    false,
                                                                    true,
                                                                    false,
                                                                    false)),
                                                                    (String
                                                                    ((Ascii
                                                                    (true,
                                                                    false,
                                                                    true,
                                                                    false,
                                                                    false,
                                                                    true,
                                                                    true,
                                                                    false)),
                                                                    (String
                                                                    ((Ascii
                                                                    (false,
                                                                    true,
                                                                    true,
                                                                    true,
                                                                    false,
                                                                    true,
                                                                    true,
                                                                    false)),
                                                                    (String
                                                                    ((Ascii
                                                                    (false,
                                                                    false,
                                                                    true,
                                                                    false,
                                                                    true,
                                                                    true,
                                                                    true,
                                                                    false)),
                                                                    (String
                                                                    ((Ascii
                                                                    (false,
                                                                    true,
                                                                    false,
                                                                    false,
                                                                    true,
                                                                    true,
                                                                    true,
                                                                    false)),
                                                                    (String
                                                                    ((Ascii
                                                                    (true,
                                                                    false,
                                                                    false,
                                                                    true,
                                                                    true,
                                                                    true,
                                                                    true,
                                                                    false)),
                                                                    EmptyString))))))))))))))))))))))))))
                                                                else 
                                                                  if b10
                                                                  then 
                                                                    SY
                                                                    (String
                                                                    ((Ascii
                                                                    (true,
                                                                    false,
                                                                    true,
                                                                    false,
                                                                    true,
                                                                    true,
                                                                    true,
                                                                    false)),
                                                                    (String
                                                                    ((Ascii
                                                                    (false,
                                                                    true,
                                                                    true,
                                                                    true,
                                                                    false,
                                                                    true,
                                                                    true,
                                                                    false)),
                                                                    (String
                                                                    ((Ascii
                                                                    (true,
                                                                    true,
                                                                    false,
                                                                    true,
                                                                    false,
                                                                    true,
                                                                    true,
                                                                    false)),
                                                                    (String
                                                                    ((Ascii
                                                                    (false,
                                                                    true,
                                                                    true,
                                                                    true,
                                                                    false,
                                                                    true,
                                                                    true,
                                                                    false)),
                                                                    (String
                                                                    ((Ascii
                                                                    (true,
                                                                    true,
                                                                    true,
                                                                    true,
                                                                    false,
                                                                    true,
                                                                    true,
                                                                    false)),
                                                                    (String
                                                                    ((Ascii
                                                                    (true,
                                                                    true,
                                                                    true,
                                                                    false,
                                                                    true,
                                                                    true,
                                                                    true,
                                                                    false)),
                                                                    (String
                                                                    ((Ascii
                                                                    (false,
                                                                    true,
                                                                    true,
                                                                    true,
                                                                    false,
                                                                    true,
                                                                    true,
                                                                    false)),
                                                                    (String
                                                                    ((Ascii
                                                                    (true,
                                                                    false,
                                                                    true,
                                                                    true,
                                                                    false,
                                                                    true,
                                                                    false,
                                                                    false)),
                                                                    (String
                                                                    ((Ascii
                                                                    (true,
                                                                    false,
                                                                    true,
                                                                    false,
                                                                    false,
                                                                    true,
                                                                    true,
                                                                    false)),
                                                                    (String
                                                                    ((Ascii
                                                                    (false,
                                                                    true,
                                                                    true,
                                                                    true,
                                                                    false,
                                                                    true,
                                                                    true,
                                                                    false)),
                                                                    (String
                                                                    ((Ascii
                                                                    (false,
                                                                    false,
                                                                    true,
                                                                    false,
                                                                    true,
                                                                    true,
                                                                    true,
                                                                    false)),
                                                                    (String
                                                                    ((Ascii
                                                                    (false,
                                                                    true,
                                                                    false,
                                                                    false,
                                                                    true,
                                                                    true,
                                                                    true,
                                                                    false)),
                                                                    (String
                                                                    ((Ascii
                                                                    (true,
                                                                    false,
                                                                    false,
                                                                    true,
                                                                    true,
                                                                    true,
                                                                    true,
                                                                    false)),
                                                                    EmptyString))))))))))))))))))))))))))
                                                                  else 
                                                                    if b11
                                                                    then 
                                                                    if b12
                                                                    then 
                                                                    if b13
                                                                    then 
                                                                    SY
                                                                    (String
                                                                    ((Ascii
                                                                    (true,
                                                                    false,
                                                                    true,
                                                                    false,
                                                                    true,
                                                                    true,
                                                                    true,
                                                                    false)),
                                                                    (String
                                                                    ((Ascii
                                                                    (false,
                                                                    true,
                                                                    true,
                                                                    true,
                                                                    false,
                                                                    true,
                                                                    true,
                                                                    false)),
                                                                    (String
                                                                    ((Ascii
                                                                    (true,
                                                                    true,
                                                                    false,
                                                                    true,
                                                                    false,
                                                                    true,
                                                                    true,
                                                                    false)),
                                                                    (String
                                                                    ((Ascii
                                                                    (false,
                                                                    true,
                                                                    true,
                                                                    true,
                                                                    false,
                                                                    true,
                                                                    true,
                                                                    false)),
                                                                    (String
                                                                    ((Ascii
                                                                    (true,
                                                                    true,
                                                                    true,
                                                                    true,
                                                                    false,
                                                                    true,
                                                                    true,
                                                                    false)),
                                                                    (String
                                                                    ((Ascii
                                                                    (true,
                                                                    true,
                                                                    true,
                                                                    false,
                                                                    true,
                                                                    true,
                                                                    true,
                                                                    false)),
                                                                    (String
                                                                    ((Ascii
                                                                    (false,
                                                                    true,
                                                                    true,
                                                                    true,
                                                                    false,
                                                                    true,
                                                                    true,
                                                                    false)),
                                                                    (String
                                                                    ((Ascii
                                                                    (true,
                                                                    false,
                                                                    true,
                                                                    true,
                                                                    false,
                                                                    true,
                                                                    false,
                                                                    false)),
                                                                    (String
                                                                    ((Ascii
                                                                    (true,
                                                                    false,
                                                                    true,
                                                                    false,
                                                                    false,
                                                                    true,
                                                                    true,
                                                                    false)),
                                                                    (String
                                                                    ((Ascii
                                                                    (false,
                                                                    true,
                                                                    true,
                                                                    true,
                                                                    false,
                                                                    true,
                                                                    true,
                                                                    false)),
                                                                    (String
                                                                    ((Ascii
                                                                    (false,
                                                                    false,
                                                                    true,
                                                                    false,
                                                                    true,
                                                                    true,
                                                                    true,
                                                                    false)),
                                                                    (String
                                                                    ((Ascii
                                                                    (false,
                                                                    true,
                                                                    false,
                                                                    false,
                                                                    true,
                                                                    true,
                                                                    true,
                                                                    false)),
                                                                    (String
                                                                    ((Ascii
                                                                    (true,
                                                                    false,
                                                                    false,
                                                                    true,
                                                                    true,
                                                                    true,
                                                                    true,
                                                                    false)),
                                                                    EmptyString))))))))))))))))))))))))))
                                                                    else 
                                                                    if b14
                                                                    then 
                                                                    SY
                                                                    (String
                                                                    ((Ascii
                                                                    (true,
                                                                    false,
                                                                    true,
                                                                    false,
                                                                    true,
                                                                    true,
                                                                    true,
                                                                    false)),
                                                                    (String
                                                                    ((Ascii
                                                                    (false,
                                                                    true,
                                                                    true,
                                                                    true,
                                                                    false,
                                                                    true,
                                                                    true,
                                                                    false)),
                                                                    (String
                                                                    ((Ascii
                                                                    (true,
                                                                    true,
                                                                    false,
                                                                    true,
                                                                    false,
                                                                    true,
                                                                    true,
                                                                    false)),
                                                                    (String
                                                                    ((Ascii
                                                                    (false,
                                                                    true,
                                                                    true,
                                                                    true,
                                                                    false,
                                                                    true,
                                                                    true,
                                                                    false)),
                                                                    (String
                                                                    ((Ascii
                                                                    (true,
                                                                    true,
                                                                    true,
                                                                    true,
                                                                    false,
                                                                    true,
                                                                    true,
                                                                    false)),
                                                                    (String
                                                                    ((Ascii
                                                                    (true,
                                                                    true,
                                                                    true,
                                                                    false,
                                                                    true,
                                                                    true,
                                                                    true,
                                                                    false)),
                                                                    (String
                                                                    ((Ascii
                                                                    (false,
                                                                    true,
                                                                    true,
                                                                    true,
                                                                    false,
                                                                    true,
                                                                    true,
                                                                    false)),
                                                                    (String
                                                                    ((Ascii
                                                                    (true,
                                                                    false,
                                                                    true,
                                                                    true,
                                                                    false,
                                                                    true,
                                                                    false,
                                                                    false)),
                                                                    (String
                                                                    ((Ascii
                                                                    (true,
                                                                    false,
                                                                    true,
                                                                    false,
                                                                    false,
                                                                    true,
                                                                    true,
                                                                    false)),
                                                                    (String
                                                                    ((Ascii
                                                                    (false,
                                                                    true,
                                                                    true,
                                                                    true,
                                                                    false,
                                                                    true,
                                                                    true,
                                                                    false)),
                                                                    (String
                                                                    ((Ascii
                                                                    (false,
                                                                    false,
                                                                    true,
                                                                    false,
                                                                    true,
                                                                    true,
                                                                    true,
                                                                    false)),
                                                                    (String
                                                                    ((Ascii
                                                                    (false,
                                                                    true,
                                                                    false,
                                                                    false,
                                                                    true,
                                                                    true,
                                                                    true,
                                                                    false)),
                                                                    (String
                                                                    ((Ascii
                                                                    (true,
                                                                    false,
                                                                    false,
                                                                    true,
                                                                    true,
                                                                    true,
                                                                    true,
                                                                    false)),
                                                                    EmptyString))))))))))))))))))))))))))
                                                                    else 
                                                                    (match s2 with
                                                                    | EmptyString ->
                                                                    SY
                                                                    (String
                                                                    ((Ascii
                                                                    (true,
                                                                    false,
                                                                    true,
                                                                    false,
                                                                    true,
                                                                    true,
                                                                    true,
                                                                    false)),
                                                                    (String
                                                                    ((Ascii
                                                                    (false,
                                                                    true,
                                                                    true,
                                                                    true,
                                                                    false,
                                                                    true,
                                                                    true,
                                                                    false)),
                                                                    (String
                                                                    ((Ascii
                                                                    (true,
                                                                    true,
                                                                    false,
                                                                    true,
                                                                    false,
                                                                    true,
                                                                    true,
                                                                    false)),
                                                                    (String
                                                                    ((Ascii
                                                                    (false,
                                                                    true,
                                                                    true,
                                                                    true,
                                                                    false,
                                                                    true,
                                                                    true,
                                                                    false)),
                                                                    (String
                                                                    ((Ascii
                                                                    (true,
                                                                    true,
                                                                    true,
                                                                    true,
                                                                    false,
                                                                    true,
                                                                    true,
                                                                    false)),
                                                                    (String
                                                                    ((Ascii
                                                                    (true,
                                                                    true,
                                                                    true,
                                                                    false,
                                                                    true,
                                                                    true,
                                                                    true,
                                                                    false)),
                                                                    (String
                                                                    ((Ascii
                                                                    (false,
                                                                    true,
                                                                    true,
                                                                    true,
                                                                    false,
                                                                    true,
                                                                    true,
                                                                    false)),
                                                                    (String
                                                                    ((Ascii
                                                                    (true,
                                                                    false,
                                                                    true,
                                                                    true,
                                                                    false,
                                                                    true,
                                                                    false,
                                                                    false)),
                                                                    (String
                                                                    ((Ascii
                                                                    (true,
                                                                    false,
                                                                    true,
                                                                    false,
                                                                    false,
                                                                    true,
                                                                    true,
                                                                    false)),
                                                                    (String
                                                                    ((Ascii
                                                                    (false,
                                                                    true,
                                                                    true,
                                                                    true,
                                                                    false,
                                                                    true,
                                                                    true,
                                                                    false)),
                                                                    (String
                                                                    ((Ascii
                                                                    (false,
                                                                    false,
                                                                    true,
                                                                    false,
                                                                    true,
                                                                    true,
                                                                    true,
                                                                    false)),
                                                                    (String
                                                                    ((Ascii
                                                                    (false,
                                                                    true,
                                                                    false,
                                                                    false,
                                                                    true,
                                                                    true,
                                                                    true,
                                                                    false)),
                                                                    (String
                                                                    ((Ascii
                                                                    (true,
                                                                    false,
                                                                    false,
                                                                    true,
                                                                    true,
                                                                    true,
                                                                    true,
                                                                    false)),
                                                                    EmptyString))))))))))))))))))))))))))
                                                                    | String (
                                                                    a1, s3) ->
                                                                    let Ascii (
                                                                    b15, b16,
                                                                    b17, b18,
                                                                    b19, b20,
                                                                    b21, b22) =
                                                                    a1
                                                                    in
                                                                    if b15
                                                                    then 
                                                                    if b16
                                                                    then 
                                                                    if b17
                                                                    then 
                                                                    if b18
                                                                    then 
                                                                    SY
                                                                    (String
                                                                    ((Ascii
                                                                    (true,
                                                                    false,
                                                                    true,
                                                                    false,
                                                                    true,
                                                                    true,
                                                                    true,
                                                                    false)),
                                                                    (String
                                                                    ((Ascii
                                                                    (false,
                                                                    true,
                                                                    true,
                                                                    true,
                                                                    false,
                                                                    true,
                                                                    true,
                                                                    false)),
                                                                    (String
                                                                    ((Ascii
                                                                    (true,
                                                                    true,
                                                                    false,
                                                                    true,
                                                                    false,
                                                                    true,
                                                                    true,
                                                                    false)),
                                                                    (String
                                                                    ((Ascii
                                                                    (false,
                                                                    true,
                                                                    true,
                                                                    true,
                                                                    false,
                                                                    true,
                                                                    true,
                                                                    false)),
                                                                    (String
                                                                    ((Ascii
                                                                    (true,
                                                                    true,
                                                                    true,
                                                                    true,
                                                                    false,
                                                                    true,
                                                                    true,
                                                                    false)),
                                                                    (String
                                                                    ((Ascii
                                                                    (true,
                                                                    true,
                                                                    true,
                                                                    false,
                                                                    true,
                                                                    true,
                                                                    true,
                                                                    false)),
                                                                    (String
                                                                    ((Ascii
                                                                    (false,
                                                                    true,
                                                                    true,
                                                                    true,
                                                                    false,
                                                                    true,
                                                                    true,
                                                                    false)),
                                                                    (String
                                                                    ((Ascii
                                                                    (true,
                                                                    false,
                                                                    true,
                                                                    true,
                                                                    false,
                                                                    true,
                                                                    false,
                                                                    false)),
                                                                    (String
                                                                    ((Ascii
                                                                    (true,
                                                                    false,
                                                                    true,
                                                                    false,
                                                                    false,
                                                                    true,
                                                                    true,
                                                                    false)),
                                                                    (String
                                                                    ((Ascii
                                                                    (false,
                                                                    true,
                                                                    true,
                                                                    true,
                                                                    false,
                                                                    true,
                                                                    true,
                                                                    false)),
                                                                    (String
                                                                    ((Ascii
                                                                    (false,
                                                                    false,
                                                                    true,
                                                                    false,
                                                                    true,
                                                                    true,
                                                                    true,
                                                                    false)),
                                                                    (String
                                                                    ((Ascii
                                                                    (false,
                                                                    true,
                                                                    false,
                                                                    false,
                                                                    true,
                                                                    true,
                                                                    true,
                                                                    false)),
                                                                    (String
                                                                    ((Ascii
                                                                    (true,
                                                                    false,
                                                                    false,
                                                                    true,
                                                                    true,
                                                                    true,
                                                                    true,
                                                                    false)),
                                                                    EmptyString))))))))))))))))))))))))))
                                                                    else 
                                                                    if b19
                                                                    then 
                                                                    if b20
                                                                    then 
                                                                    if b21
                                                                    then 
                                                                    SY
                                                                    (String
                                                                    ((Ascii
                                                                    (true,
                                                                    false,
                                                                    true,
                                                                    false,
                                                                    true,
                                                                    true,
                                                                    true,
                                                                    false)),
                                                                    (String
                                                                    ((Ascii
                                                                    (false,
                                                                    true,
                                                                    true,
                                                                    true,
                                                                    false,
                                                                    true,
                                                                    true,
                                                                    false)),
                                                                    (String
                                                                    ((Ascii
                                                                    (true,
                                                                    true,
                                                                    false,
                                                                    true,
                                                                    false,
                                                                    true,
                                                                    true,
                                                                    false)),
                                                                    (String
                                                                    ((Ascii
                                                                    (false,
                                                                    true,
                                                                    true,
                                                                    true,
                                                                    false,
                                                                    true,
                                                                    true,
                                                                    false)),
                                                                    (String
                                                                    ((Ascii
                                                                    (true,
                                                                    true,
                                                                    true,
                                                                    true,
                                                                    false,
                                                                    true,
                                                                    true,
                                                                    false)),
                                                                    (String
                                                                    ((Ascii
                                                                    (true,
                                                                    true,
                                                                    true,
                                                                    false,
                                                                    true,
                                                                    true,
                                                                    true,
                                                                    false)),
                                                                    (String
                                                                    ((Ascii
                                                                    (false,
                                                                    true,
                                                                    true,
                                                                    true,
                                                                    false,
                                                                    true,
                                                                    true,
                                                                    false)),
                                                                    (String
                                                                    ((Ascii
                                                                    (true,
                                                                    false,
                                                                    true,
                                                                    true,
                                                                    false,
                                                                    true,
                                                                    false,
                                                                    false)),
                                                                    (String
                                                                    ((Ascii
                                                                    (true,
                                                                    false,
                                                                    true,
                                                                    false,
                                                                    false,
                                                                    true,
                                                                    true,
                                                                    false)),
                                                                    (String
                                                                    ((Ascii
                                                                    (false,
                                                                    true,
                                                                    true,
                                                                    true,
                                                                    false,
                                                                    true,
                                                                    true,
                                                                    false)),
                                                                    (String
                                                                    ((Ascii
                                                                    (false,
                                                                    false,
                                                                    true,
                                                                    false,
                                                                    true,
                                                                    true,
                                                                    true,
                                                                    false)),
                                                                    (String
                                                                    ((Ascii
                                                                    (false,
                                                                    true,
                                                                    false,
                                                                    false,
                                                                    true,
                                                                    true,
                                                                    true,
                                                                    false)),
                                                                    (String
                                                                    ((Ascii
                                                                    (true,
                                                                    false,
                                                                    false,
                                                                    true,
                                                                    true,
                                                                    true,
                                                                    true,
                                                                    false)),
                                                                    EmptyString))))))))))))))))))))))))))
                                                                    else 
                                                                    if b22
                                                                    then 
                                                                    SY
                                                                    (String
                                                                    ((Ascii
                                                                    (true,
                                                                    false,
                                                                    true,
                                                                    false,
                                                                    true,
                                                                    true,
                                                                    true,
                                                                    false)),
                                                                    (String
                                                                    ((Ascii
                                                                    (false,
                                                                    true,
                                                                    true,
                                                                    true,
                                                                    false,
                                                                    true,
                                                                    true,
                                                                    false)),
                                                                    (String
                                                                    ((Ascii
                                                                    (true,
                                                                    true,
                                                                    false,
                                                                    true,
                                                                    false,
                                                                    true,
                                                                    true,
                                                                    false)),
                                                                    (String
                                                                    ((Ascii
                                                                    (false,
                                                                    true,
                                                                    true,
                                                                    true,
                                                                    false,
                                                                    true,
                                                                    true,
                                                                    false)),
                                                                    (String
                                                                    ((Ascii
                                                                    (true,
                                                                    true,
                                                                    true,
                                                                    true,
                                                                    false,
                                                                    true,
                                                                    true,
                                                                    false)),
                                                                    (String
                                                                    ((Ascii
                                                                    (true,
                                                                    true,
                                                                    true,
                                                                    false,
                                                                    true,
                                                                    true,
                                                                    true,
                                                                    false)),
                                                                    (String
                                                                    ((Ascii
                                                                    (false,
                                                                    true,
                                                                    true,
                                                                    true,
                                                                    false,
                                                                    true,
                                                                    true,
                                                                    false)),
                                                                    (String
                                                                    ((Ascii
                                                                    (true,
                                                                    false,
                                                                    true,
                                                                    true,
                                                                    false,
                                                                    true,
                                                                    false,
                                                                    false)),
                                                                    (String
                                                                    ((Ascii
                                                                    (true,
                                                                    false,
                                                                    true,
                                                                    false,
                                                                    false,
                                                                    true,
                                                                    true,
                                                                    false)),
                                                                    (String
                                                                    ((Ascii
                                                                    (false,
                                                                    true,
                                                                    true,
                                                                    true,
                                                                    false,
                                                                    true,
                                                                    true,
                                                                    false)),
                                                                    (String
                                                                    ((Ascii
                                                                    (false,
                                                                    false,
                                                                    true,
                                                                    false,
                                                                    true,
                                                                    true,
                                                                    true,
                                                                    false)),
                                                                    (String
                                                                    ((Ascii
                                                                    (false,
                                                                    true,
                                                                    false,
                                                                    false,
                                                                    true,
                                                                    true,
                                                                    true,
                                                                    false)),
                                                                    (String
                                                                    ((Ascii
                                                                    (true,
                                                                    false,
                                                                    false,
                                                                    true,
                                                                    true,
                                                                    true,
                                                                    true,
                                                                    false)),
                                                                    EmptyString))))))))))))))))))))))))))
                                                                    else 
                                                                    (match s3 with
                                                                    | EmptyString ->
                                                                    (match l0 with
                                                                    | [] ->
                                                                    SY
                                                                    (String
                                                                    ((Ascii
                                                                    (true,
                                                                    false,
                                                                    true,
                                                                    false,
                                                                    true,
                                                                    true,
                                                                    true,
                                                                    false)),
                                                                    (String
                                                                    ((Ascii
                                                                    (false,
                                                                    true,
                                                                    true,
                                                                    true,
                                                                    false,
                                                                    true,
                                                                    true,
                                                                    false)),
                                                                    (String
                                                                    ((Ascii
                                                                    (true,
                                                                    true,
                                                                    false,
                                                                    true,
                                                                    false,
                                                                    true,
                                                                    true,
                                                                    false)),
                                                                    (String
                                                                    ((Ascii
                                                                    (false,
                                                                    true,
                                                                    true,
                                                                    true,
                                                                    false,
                                                                    true,
                                                                    true,
                                                                    false)),
                                                                    (String
                                                                    ((Ascii
                                                                    (true,
                                                                    true,
                                                                    true,
                                                                    true,
                                                                    false,
                                                                    true,
                                                                    true,
                                                                    false)),
                                                                    (String
                                                                    ((Ascii
                                                                    (true,
                                                                    true,
                                                                    true,
                                                                    false,
                                                                    true,
                                                                    true,
                                                                    true,
                                                                    false)),
                                                                    (String
                                                                    ((Ascii
                                                                    (false,
                                                                    true,
                                                                    true,
                                                                    true,
                                                                    false,
                                                                    true,
                                                                    true,
                                                                    false)),
                                                                    (String
                                                                    ((Ascii
                                                                    (true,
                                                                    false,
                                                                    true,
                                                                    true,
                                                                    false,
                                                                    true,
                                                                    false,
                                                                    false)),
                                                                    (String
                                                                    ((Ascii
                                                                    (true,
                                                                    false,
                                                                    true,
                                                                    false,
                                                                    false,
                                                                    true,
                                                                    true,
                                                                    false)),
                                                                    (String
                                                                    ((Ascii
                                                                    (false,
                                                                    true,
                                                                    true,
                                                                    true,
                                                                    false,
                                                                    true,
                                                                    true,
                                                                    false)),
                                                                    (String
                                                                    ((Ascii
                                                                    (false,
                                                                    false,
                                                                    true,
                                                                    false,
                                                                    true,
                                                                    true,
                                                                    true,
                                                                    false)),
                                                                    (String
                                                                    ((Ascii
                                                                    (false,
                                                                    true,
                                                                    false,
                                                                    false,
                                                                    true,
                                                                    true,
                                                                    true,
                                                                    false)),
                                                                    (String
                                                                    ((Ascii
                                                                    (true,
                                                                    false,
                                                                    false,
                                                                    true,
                                                                    true,
                                                                    true,
                                                                    true,
                                                                    false)),
                                                                    EmptyString))))))))))))))))))))))))))
                                                                    | y :: l1 ->
                                                                    (match l1 with
                                                                    | [] ->
                                                                    run_levels
                                                                    y
                                                                    | _ :: _ ->
                                                                    SY
                                                                    (String
                                                                    ((Ascii
                                                                    (true,
                                                                    false,
                                                                    true,
                                                                    false,
                                                                    true,
                                                                    true,
                                                                    true,
                                                                    false)),
                                                                    (String
                                                                    ((Ascii
                                                                    (false,
                                                                    true,
                                                                    true,
                                                                    true,
                                                                    false,
                                                                    true,
                                                                    true,
                                                                    false)),
                                                                    (String
                                                                    ((Ascii
                                                                    (true,
                                                                    true,
                                                                    false,
                                                                    true,
                                                                    false,
                                                                    true,
                                                                    true,
                                                                    false)),
                                                                    (String
                                                                    ((Ascii
                                                                    (false,
                                                                    true,
                                                                    true,
                                                                    true,
                                                                    false,
                                                                    true,
                                                                    true,
                                                                    false)),
                                                                    (String
                                                                    ((Ascii
                                                                    (true,
                                                                    true,
                                                                    true,
                                                                    true,
                                                                    false,
                                                                    true,
                                                                    true,
                                                                    false)),
                                                                    (String
                                                                    ((Ascii
                                                                    (true,
                                                                    true,
                                                                    true,
                                                                    false,
                                                                    true,
                                                                    true,
                                                                    true,
                                                                    false)),
                                                                    (String
                                                                    ((Ascii
                                                                    (false,
                                                                    true,
                                                                    true,
                                                                    true,
                                                                    false,
                                                                    true,
                                                                    true,
                                                                    false)),
                                                                    (String
                                                                    ((Ascii
                                                                    (true,
                                                                    false,
                                                                    true,
                                                                    true,
                                                                    false,
                                                                    true,
                                                                    false,
                                                                    false)),
                                                                    (String
                                                                    ((Ascii
                                                                    (true,
                                                                    false,
                                                                    true,
                                                                    false,
                                                                    false,
                                                                    true,
                                                                    true,
                                                                    false)),
                                                                    (String
                                                                    ((Ascii
                                                                    (false,
                                                                    true,
                                                                    true,
                                                                    true,
                                                                    false,
                                                                    true,
                                                                    true,
                                                                    false)),
                                                                    (String
                                                                    ((Ascii
                                                                    (false,
                                                                    false,
                                                                    true,
                                                                    false,
                                                                    true,
                                                                    true,
                                                                    true,
                                                                    false)),
                                                                    (String
                                                                    ((Ascii
                                                                    (false,
                                                                    true,
                                                                    false,
                                                                    false,
                                                                    true,
                                                                    true,
                                                                    true,
                                                                    false)),
                                                                    (String
                                                                    ((Ascii
                                                                    (true,
                                                                    false,
                                                                    false,
                                                                    true,
                                                                    true,
                                                                    true,
                                                                    true,
                                                                    false)),
                                                                    EmptyString))))))))))))))))))))))))))))
                                                                    | String (
                                                                    _, _) ->
                                                                    SY
                                                                    (String
                                                                    ((Ascii
                                                                    (true,
                                                                    false,
                                                                    true,
                                                                    false,
                                                                    true,
                                                                    true,
                                                                    true,
                                                                    false)),
                                                                    (String
                                                                    ((Ascii
                                                                    (false,
                                                                    true,
                                                                    true,
                                                                    true,
                                                                    false,
                                                                    true,
                                                                    true,
                                                                    false)),
                                                                    (String
                                                                    ((Ascii
                                                                    (true,
                                                                    true,
                                                                    false,
                                                                    true,
                                                                    false,
                                                                    true,
                                                                    true,
                                                                    false)),
                                                                    (String
                                                                    ((Ascii
                                                                    (false,
                                                                    true,
                                                                    true,
                                                                    true,
                                                                    false,
                                                                    true,
                                                                    true,
                                                                    false)),
                                                                    (String
                                                                    ((Ascii
                                                                    (true,
                                                                    true,
                                                                    true,
                                                                    true,
                                                                    false,
                                                                    true,
                                                                    true,
                                                                    false)),
                                                                    (String
                                                                    ((Ascii
                                                                    (true,
                                                                    true,
                                                                    true,
                                                                    false,
                                                                    true,
                                                                    true,
                                                                    true,
                                                                    false)),
                                                                    (String
                                                                    ((Ascii
                                                                    (false,
                                                                    true,
                                                                    true,
                                                                    true,
                                                                    false,
                                                                    true,
                                                                    true,
                                                                    false)),
                                                                    (String
                                                                    ((Ascii
                                                                    (true,
                                                                    false,
                                                                    true,
                                                                    true,
                                                                    false,
                                                                    true,
                                                                    false,
                                                                    false)),
                                                                    (String
                                                                    ((Ascii
                                                                    (true,
                                                                    false,
                                                                    true,
                                                                    false,
                                                                    false,
                                                                    true,
                                                                    true,
                                                                    false)),
                                                                    (String
                                                                    ((Ascii
                                                                    (false,
                                                                    true,
                                                                    true,
                                                                    true,
                                                                    false,
                                                                    true,
                                                                    true,
                                                                    false)),
                                                                    (String
                                                                    ((Ascii
                                                                    (false,
                                                                    false,
                                                                    true,
                                                                    false,
                                                                    true,
                                                                    true,
                                                                    true,
                                                                    false)),
                                                                    (String
                                                                    ((Ascii
                                                                    (false,
                                                                    true,
                                                                    false,
                                                                    false,
                                                                    true,
                                                                    true,
                                                                    true,
                                                                    false)),
                                                                    (String
                                                                    ((Ascii
                                                                    (true,
                                                                    false,
                                                                    false,
                                                                    true,
                                                                    true,
                                                                    true,
                                                                    true,
                                                                    false)),
                                                                    EmptyString)))))))))))))))))))))))))))
                                                                    else 
                                                                    SY
                                                                    (String
                                                                    ((Ascii
                                                                    (true,
                                                                    false,
                                                                    true,
                                                                    false,
                                                                    true,
                                                                    true,
                                                                    true,
                                                                    false)),
                                                                    (String
                                                                    ((Ascii
                                                                    (false,
                                                                    true,
                                                                    true,
                                                                    true,
                                                                    false,
                                                                    true,
                                                                    true,
                                                                    false)),
                                                                    (String
                                                                    ((Ascii
                                                                    (true,
                                                                    true,
                                                                    false,
                                                                    true,
                                                                    false,
                                                                    true,
                                                                    true,
                                                                    false)),
                                                                    (String
                                                                    ((Ascii
                                                                    (false,
                                                                    true,
                                                                    true,
                                                                    true,
                                                                    false,
                                                                    true,
                                                                    true,
                                                                    false)),
                                                                    (String
                                                                    ((Ascii
                                                                    (true,
                                                                    true,
                                                                    true,
                                                                    true,
                                                                    false,
                                                                    true,
                                                                    true,
                                                                    false)),
                                                                    (String
                                                                    ((Ascii
                                                                    (true,
                                                                    true,
                                                                    true,
                                                                    false,
                                                                    true,
                                                                    true,
                                                                    true,
                                                                    false)),
                                                                    (String
                                                                    ((Ascii
                                                                    (false,
                                                                    true,
                                                                    true,
                                                                    true,
                                                                    false,
                                                                    true,
                                                                    true,
                                                                    false)),
                                                                    (String
                                                                    ((Ascii
                                                                    (true,
                                                                    false,
                                                                    true,
                                                                    true,
                                                                    false,
                                                                    true,
                                                                    false,
                                                                    false)),
                                                                    (String
                                                                    ((Ascii
                                                                    (true,
                                                                    false,
                                                                    true,
                                                                    false,
                                                                    false,
                                                                    true,
                                                                    true,
                                                                    false)),
                                                                    (String
                                                                    ((Ascii
                                                                    (false,
                                                                    true,
                                                                    true,
                                                                    true,
                                                                    false,
                                                                    true,
                                                                    true,
                                                                    false)),
                                                                    (String
                                                                    ((Ascii
                                                                    (false,
                                                                    false,
                                                                    true,
                                                                    false,
                                                                    true,
                                                                    true,
                                                                    true,
                                                                    false)),
                                                                    (String
                                                                    ((Ascii
                                                                    (false,
                                                                    true,
                                                                    false,
                                                                    false,
                                                                    true,
                                                                    true,
                                                                    true,
                                                                    false)),
                                                                    (String
                                                                    ((Ascii
                                                                    (true,
                                                                    false,
                                                                    false,
                                                                    true,
                                                                    true,
                                                                    true,
                                                                    true,
                                                                    false)),
                                                                    EmptyString))))))))))))))))))))))))))
                                                                    else 
                                                                    SY
                                                                    (String
                                                                    ((Ascii
                                                                    (true,
                                                                    false,
                                                                    true,
                                                                    false,
                                                                    true,
                                                                    true,
                                                                    true,
                                                                    false)),
                                                                    (String
                                                                    ((Ascii
                                                                    (false,
                                                                    true,
                                                                    true,
                                                                    true,
                                                                    false,
                                                                    true,
                                                                    true,
                                                                    false)),
                                                                    (String
                                                                    ((Ascii
                                                                    (true,
                                                                    true,
                                                                    false,
                                                                    true,
                                                                    false,
                                                                    true,
                                                                    true,
                                                                    false)),
                                                                    (String
                                                                    ((Ascii
                                                                    (false,
                                                                    true,
                                                                    true,
                                                                    true,
                                                                    false,
                                                                    true,
                                                                    true,
                                                                    false)),
                                                                    (String
                                                                    ((Ascii
                                                                    (true,
                                                                    true,
                                                                    true,
                                                                    true,
                                                                    false,
                                                                    true,
                                                                    true,
                                                                    false)),
                                                                    (String
                                                                    ((Ascii
                                                                    (true,
                                                                    true,
                                                                    true,
                                                                    false,
                                                                    true,
                                                                    true,
                                                                    true,
                                                                    false)),
                                                                    (String
                                                                    ((Ascii
                                                                    (false,
                                                                    true,
                                                                    true,
                                                                    true,
                                                                    false,
                                                                    true,
                                                                    true,
                                                                    false)),
                                                                    (String
                                                                    ((Ascii
                                                                    (true,
                                                                    false,
                                                                    true,
                                                                    true,
                                                                    false,
                                                                    true,
                                                                    false,
                                                                    false)),
                                                                    (String
                                                                    ((Ascii
                                                                    (true,
                                                                    false,
                                                                    true,
                                                                    false,
                                                                    false,
                                                                    true,
                                                                    true,
                                                                    false)),
                                                                    (String
                                                                    ((Ascii
                                                                    (false,
                                                                    true,
                                                                    true,
                                                                    true,
                                                                    false,
                                                                    true,
                                                                    true,
                                                                    false)),
                                                                    (String
                                                                    ((Ascii
                                                                    (false,
                                                                    false,
                                                                    true,
                                                                    false,
                                                                    true,
                                                                    true,
                                                                    true,
                                                                    false)),
                                                                    (String
                                                                    ((Ascii
                                                                    (false,
                                                                    true,
                                                                    false,
                                                                    false,
                                                                    true,
                                                                    true,
                                                                    true,
                                                                    false)),
                                                                    (String
                                                                    ((Ascii
                                                                    (true,
                                                                    false,
                                                                    false,
                                                                    true,
                                                                    true,
                                                                    true,
                                                                    true,
                                                                    false)),
                                                                    EmptyString))))))))))))))))))))))))))
                                                                    else 
                                                                    SY
                                                                    (String
                                                                    ((Ascii
                                                                    (true,
                                                                    false,
                                                                    true,
                                                                    false,
                                                                    true,
                                                                    true,
                                                                    true,
                                                                    false)),
                                                                    (String
                                                                    ((Ascii
                                                                    (false,
                                                                    true,
                                                                    true,
                                                                    true,
                                                                    false,
                                                                    true,
                                                                    true,
                                                                    false)),
                                                                    (String
                                                                    ((Ascii
                                                                    (true,
                                                                    true,
                                                                    false,
                                                                    true,
                                                                    false,
                                                                    true,
                                                                    true,
                                                                    false)),
                                                                    (String
                                                                    ((Ascii
                                                                    (false,
                                                                    true,
                                                                    true,
                                                                    true,
                                                                    false,
                                                                    true,
                                                                    true,
                                                                    false)),
                                                                    (String
                                                                    ((Ascii
                                                                    (true,
                                                                    true,
                                                                    true,
                                                                    true,
                                                                    false,
                                                                    true,
                                                                    true,
                                                                    false)),
                                                                    (String
                                                                    ((Ascii
                                                                    (true,
                                                                    true,
                                                                    true,
                                                                    false,
                                                                    true,
                                                                    true,
                                                                    true,
                                                                    false)),
                                                                    (String
                                                                    ((Ascii
                                                                    (false,
                                                                    true,
                                                                    true,
                                                                    true,
                                                                    false,
                                                                    true,
                                                                    true,
                                                                    false)),
                                                                    (String
                                                                    ((Ascii
                                                                    (true,
                                                                    false,
                                                                    true,
                                                                    true,
                                                                    false,
                                                                    true,
                                                                    false,
                                                                    false)),
                                                                    (String
                                                                    ((Ascii
                                                                    (true,
                                                                    false,
                                                                    true,
                                                                    false,
                                                                    false,
                                                                    true,
                                                                    true,
                                                                    false)),
                                                                    (String
                                                                    ((Ascii
                                                                    (false,
                                                                    true,
                                                                    true,
                                                                    true,
                                                                    false,
                                                                    true,
                                                                    true,
                                                                    false)),
                                                                    (String
                                                                    ((Ascii
                                                                    (false,
                                                                    false,
                                                                    true,
                                                                    false,
                                                                    true,
                                                                    true,
                                                                    true,
                                                                    false)),
                                                                    (String
                                                                    ((Ascii
                                                                    (false,
                                                                    true,
                                                                    false,
                                                                    false,
                                                                    true,
                                                                    true,
                                                                    true,
                                                                    false)),
                                                                    (String
                                                                    ((Ascii
                                                                    (true,
                                                                    false,
                                                                    false,
                                                                    true,
                                                                    true,
                                                                    true,
                                                                    true,
                                                                    false)),
                                                                    EmptyString))))))))))))))))))))))))))
                                                                    else 
                                                                    SY
                                                                    (String
                                                                    ((Ascii
                                                                    (true,
                                                                    false,
                                                                    true,
                                                                    false,
                                                                    true,
                                                                    true,
                                                                    true,
                                                                    false)),
                                                                    (String
                                                                    ((Ascii
                                                                    (false,
                                                                    true,
                                                                    true,
                                                                    true,
                                                                    false,
                                                                    true,
                                                                    true,
                                                                    false)),
                                                                    (String
                                                                    ((Ascii
                                                                    (true,
                                                                    true,
                                                                    false,
                                                                    true,
                                                                    false,
                                                                    true,
                                                                    true,
                                                                    false)),
                                                                    (String
                                                                    ((Ascii
                                                                    (false,
                                                                    true,
                                                                    true,
                                                                    true,
                                                                    false,
                                                                    true,
                                                                    true,
                                                                    false)),
                                                                    (String
                                                                    ((Ascii
                                                                    (true,
                                                                    true,
                                                                    true,
                                                                    true,
                                                                    false,
                                                                    true,
                                                                    true,
                                                                    false)),
                                                                    (String
                                                                    ((Ascii
                                                                    (true,
                                                                    true,
                                                                    true,
                                                                    false,
                                                                    true,
                                                                    true,
                                                                    true,
                                                                    false)),
                                                                    (String
                                                                    ((Ascii
                                                                    (false,
                                                                    true,
                                                                    true,
                                                                    true,
                                                                    false,
                                                                    true,
                                                                    true,
                                                                    false)),
                                                                    (String
                                                                    ((Ascii
                                                                    (true,
                                                                    false,
                                                                    true,
                                                                    true,
                                                                    false,
                                                                    true,
                                                                    false,
                                                                    false)),
                                                                    (String
                                                                    ((Ascii
                                                                    (true,
                                                                    false,
                                                                    true,
                                                                    false,
                                                                    false,
                                                                    true,
                                                                    true,
                                                                    false)),
                                                                    (String
                                                                    ((Ascii
                                                                    (false,
                                                                    true,
                                                                    true,
                                                                    true,
                                                                    false,
                                                                    true,
                                                                    true,
                                                                    false)),
                                                                    (String
                                                                    ((Ascii
                                                                    (false,
                                                                    false,
                                                                    true,
                                                                    false,
                                                                    true,
                                                                    true,
                                                                    true,
                                                                    false)),
                                                                    (String
                                                                    ((Ascii
                                                                    (false,
                                                                    true,
                                                                    false,
                                                                    false,
                                                                    true,
                                                                    true,
                                                                    true,
                                                                    false)),
                                                                    (String
                                                                    ((Ascii
                                                                    (true,
                                                                    false,
                                                                    false,
                                                                    true,
                                                                    true,
                                                                    true,
                                                                    true,
                                                                    false)),
                                                                    EmptyString))))))))))))))))))))))))))
                                                                    else 
                                                                    SY
                                                                    (String
                                                                    ((Ascii
                                                                    (true,
                                                                    false,
                                                                    true,
                                                                    false,
                                                                    true,
                                                                    true,
                                                                    true,
                                                                    false)),
                                                                    (String
                                                                    ((Ascii
                                                                    (false,
                                                                    true,
                                                                    true,
                                                                    true,
                                                                    false,
                                                                    true,
                                                                    true,
                                                                    false)),
                                                                    (String
                                                                    ((Ascii
                                                                    (true,
                                                                    true,
                                                                    false,
                                                                    true,
                                                                    false,
                                                                    true,
                                                                    true,
                                                                    false)),
                                                                    (String
                                                                    ((Ascii
                                                                    (false,
                                                                    true,
                                                                    true,
                                                                    true,
                                                                    false,
                                                                    true,
                                                                    true,
                                                                    false)),
                                                                    (String
                                                                    ((Ascii
                                                                    (true,
                                                                    true,
                                                                    true,
                                                                    true,
                                                                    false,
                                                                    true,
                                                                    true,
                                                                    false)),
                                                                    (String
                                                                    ((Ascii
                                                                    (true,
                                                                    true,
                                                                    true,
                                                                    false,
                                                                    true,
                                                                    true,
                                                                    true,
                                                                    false)),
                                                                    (String
                                                                    ((Ascii
                                                                    (false,
                                                                    true,
                                                                    true,
                                                                    true,
                                                                    false,
                                                                    true,
                                                                    true,
                                                                    false)),
                                                                    (String
                                                                    ((Ascii
                                                                    (true,
                                                                    false,
                                                                    true,
                                                                    true,
                                                                    false,
                                                                    true,
                                                                    false,
                                                                    false)),
                                                                    (String
                                                                    ((Ascii
                                                                    (true,
                                                                    false,
                                                                    true,
                                                                    false,
                                                                    false,
                                                                    true,
                                                                    true,
                                                                    false)),
                                                                    (String
                                                                    ((Ascii
                                                                    (false,
                                                                    true,
                                                                    true,
                                                                    true,
                                                                    false,
                                                                    true,
                                                                    true,
                                                                    false)),
                                                                    (String
                                                                    ((Ascii
                                                                    (false,
                                                                    false,
                                                                    true,
                                                                    false,
                                                                    true,
                                                                    true,
                                                                    true,
                                                                    false)),
                                                                    (String
                                                                    ((Ascii
                                                                    (false,
                                                                    true,
                                                                    false,
                                                                    false,
                                                                    true,
                                                                    true,
                                                                    true,
                                                                    false)),
                                                                    (String
                                                                    ((Ascii
                                                                    (true,
                                                                    false,
                                                                    false,
                                                                    true,
                                                                    true,
                                                                    true,
                                                                    true,
                                                                    false)),
                                                                    EmptyString)))))))))))))))))))))))))))
                                                                    else 
                                                                    SY
                                                                    (String
                                                                    ((Ascii
                                                                    (true,
                                                                    false,
                                                                    true,
                                                                    false,
                                                                    true,
                                                                    true,
                                                                    true,
                                                                    false)),
                                                                    (String
                                                                    ((Ascii
                                                                    (false,
                                                                    true,
                                                                    true,
                                                                    true,
                                                                    false,
                                                                    true,
                                                                    true,
                                                                    false)),
                                                                    (String
                                                                    ((Ascii
                                                                    (true,
                                                                    true,
                                                                    false,
                                                                    true,
                                                                    false,
                                                                    true,
                                                                    true,
                                                                    false)),
                                                                    (String
                                                                    ((Ascii
                                                                    (false,
                                                                    true,
                                                                    true,
                                                                    true,
                                                                    false,
                                                                    true,
                                                                    true,
                                                                    false)),
                                                                    (String
                                                                    ((Ascii
                                                                    (true,
                                                                    true,
                                                                    true,
                                                                    true,
                                                                    false,
                                                                    true,
                                                                    true,
                                                                    false)),
                                                                    (String
                                                                    ((Ascii
                                                                    (true,
                                                                    true,
                                                                    true,
                                                                    false,
                                                                    true,
                                                                    true,
                                                                    true,
                                                                    false)),
                                                                    (String
                                                                    ((Ascii
                                                                    (false,
                                                                    true,
                                                                    true,
                                                                    true,
                                                                    false,
                                                                    true,
                                                                    true,
                                                                    false)),
                                                                    (String
                                                                    ((Ascii
                                                                    (true,
                                                                    false,
                                                                    true,
                                                                    true,
                                                                    false,
                                                                    true,
                                                                    false,
                                                                    false)),
                                                                    (String
                                                                    ((Ascii
                                                                    (true,
                                                                    false,
                                                                    true,
                                                                    false,
                                                                    false,
                                                                    true,
                                                                    true,
                                                                    false)),
                                                                    (String
                                                                    ((Ascii
                                                                    (false,
                                                                    true,
                                                                    true,
                                                                    true,
                                                                    false,
                                                                    true,
                                                                    true,
                                                                    false)),
                                                                    (String
                                                                    ((Ascii
                                                                    (false,
                                                                    false,
                                                                    true,
                                                                    false,
                                                                    true,
                                                                    true,
                                                                    true,
                                                                    false)),
                                                                    (String
                                                                    ((Ascii
                                                                    (false,
                                                                    true,
                                                                    false,
                                                                    false,
                                                                    true,
                                                                    true,
                                                                    true,
                                                                    false)),
                                                                    (String
                                                                    ((Ascii
                                                                    (true,
                                                                    false,
                                                                    false,
                                                                    true,
                                                                    true,
                                                                    true,
                                                                    true,
                                                                    false)),
                                                                    EmptyString))))))))))))))))))))))))))
                                                                    else 
                                                                    SY
                                                                    (String
                                                                    ((Ascii
                                                                    (true,
                                                                    false,
                                                                    true,
                                                                    false,
                                                                    true,
                                                                    true,
                                                                    true,
                                                                    false)),
                                                                    (String
                                                                    ((Ascii
                                                                    (false,
                                                                    true,
                                                                    true,
                                                                    true,
                                                                    false,
                                                                    true,
                                                                    true,
                                                                    false)),
                                                                    (String
                                                                    ((Ascii
                                                                    (true,
                                                                    true,
                                                                    false,
                                                                    true,
                                                                    false,
                                                                    true,
                                                                    true,
                                                                    false)),
                                                                    (String
                                                                    ((Ascii
                                                                    (false,
                                                                    true,
                                                                    true,
                                                                    true,
                                                                    false,
                                                                    true,
                                                                    true,
                                                                    false)),
                                                                    (String
                                                                    ((Ascii
                                                                    (true,
                                                                    true,
                                                                    true,
                                                                    true,
                                                                    false,
                                                                    true,
                                                                    true,
                                                                    false)),
                                                                    (String
                                                                    ((Ascii
                                                                    (true,
                                                                    true,
                                                                    true,
                                                                    false,
                                                                    true,
                                                                    true,
                                                                    true,
                                                                    false)),
                                                                    (String
                                                                    ((Ascii
                                                                    (false,
                                                                    true,
                                                                    true,
                                                                    true,
                                                                    false,
                                                                    true,
                                                                    true,
                                                                    false)),
                                                                    (String
                                                                    ((Ascii
                                                                    (true,
                                                                    false,
                                                                    true,
                                                                    true,
                                                                    false,
                                                                    true,
                                                                    false,
                                                                    false)),
                                                                    (String
                                                                    ((Ascii
                                                                    (true,
                                                                    false,
                                                                    true,
                                                                    false,
                                                                    false,
                                                                    true,
                                                                    true,
                                                                    false)),
                                                                    (String
                                                                    ((Ascii
                                                                    (false,
                                                                    true,
                                                                    true,
                                                                    true,
                                                                    false,
                                                                    true,
                                                                    true,
                                                                    false)),
                                                                    (String
                                                                    ((Ascii
                                                                    (false,
                                                                    false,
                                                                    true,
                                                                    false,
                                                                    true,
                                                                    true,
                                                                    true,
                                                                    false)),
                                                                    (String
                                                                    ((Ascii
                                                                    (false,
                                                                    true,
                                                                    false,
                                                                    false,
                                                                    true,
                                                                    true,
                                                                    true,
                                                                    false)),
                                                                    (String
                                                                    ((Ascii
                                                                    (true,
                                                                    false,
                                                                    false,
                                                                    true,
                                                                    true,
                                                                    true,
                                                                    true,
                                                                    false)),
                                                                    EmptyString)))))))))))))))))))))))))))
                                         else SY (String ((Ascii (true,
                                                false, true, false, true,
                                                true, true, false)), (String
                                                ((Ascii (false, true, true,
                                                true, false, true, true,
                                                false)), (String ((Ascii
                                                (true, true, false, true,
                                                false, true, true, false)),
                                                (String ((Ascii (false, true,
                                                true, true, false, true,
                                                true, false)), (String
                                                ((Ascii (true, true, true,
                                                true, false, true, true,
                                                false)), (String ((Ascii
                                                (true, true, true, false,
                                                true, true, true, false)),
                                                (String ((Ascii (false, true,
                                                true, true, false, true,
                                                true, false)), (String
                                                ((Ascii (true, false, true,
                                                true, false, true, false,
                                                false)), (String ((Ascii
                                                (true, false, true, false,
                                                false, true, true, false)),
                                                (String ((Ascii (false, true,
                                                true, true, false, true,
                                                true, false)), (String
                                                ((Ascii (false, false, true,
                                                false, true, true, true,
                                                false)), (String ((Ascii
                                                (false, true, false, false,
                                                true, true, true, false)),
                                                (String ((Ascii (true, false,
                                                false, true, true, true,
                                                true, false)),
                                                EmptyString))))))))))))))))))))))))))
                else SY (String ((Ascii (true, false, true, false, true,
                       true, true, false)), (String ((Ascii (false, true,
                       true, true, false, true, true, false)), (String
                       ((Ascii (true, true, false, true, false, true, true,
                       false)), (String ((Ascii (false, true, true, true,
                       false, true, true, false)), (String ((Ascii (true,
                       true, true, true, false, true, true, false)), (String
                       ((Ascii (true, true, true, false, true, true, true,
                       false)), (String ((Ascii (false, true, true, true,
                       false, true, true, false)), (String ((Ascii (true,
                       false, true, true, false, true, false, false)),
                       (String ((Ascii (true, false, true, false, false,
                       true, true, false)), (String ((Ascii (false, true,
                       true, true, false, true, true, false)), (String
                       ((Ascii (false, false, true, false, true, true, true,
                       false)), (String ((Ascii (false, true, false, false,
                       true, true, true, false)), (String ((Ascii (true,
                       false, false, true, true, true, true, false)),
                       EmptyString))))))))))))))))))))))))))
           else SY (String ((Ascii (true, false, true, false, true, true,
                  true, false)), (String ((Ascii (false, true, true, true,
                  false, true, true, false)), (String ((Ascii (true, true,
                  false, true, false, true, true, false)), (String ((Ascii
                  (false, true, true, true, false, true, true, false)),
                  (String ((Ascii (true, true, true, true, false, true, true,
                  false)), (String ((Ascii (true, true, true, false, true,
                  true, true, false)), (String ((Ascii (false, true, true,
                  true, false, true, true, false)), (String ((Ascii (true,
                  false, true, true, false, true, false, false)), (String
                  ((Ascii (true, false, true, false, false, true, true,
                  false)), (String ((Ascii (false, true, true, true, false,
                  true, true, false)), (String ((Ascii (false, false, true,
                  false, true, true, true, false)), (String ((Ascii (false,
                  true, false, false, true, true, true, false)), (String
                  ((Ascii (true, false, false, true, true, true, true,
                  false)), EmptyString)))))))))))))))))))))))))))
      | _ ->
        SY (String ((Ascii (true, false, true, false, true, true, true,
          false)), (String ((Ascii (false, true, true, true, false, true,
          true, false)), (String ((Ascii (true, true, false, true, false,
          true, true, false)), (String ((Ascii (false, true, true, true,
          false, true, true, false)), (String ((Ascii (true, true, true,
          true, false, true, true, false)), (String ((Ascii (true, true,
          true, false, true, true, true, false)), (String ((Ascii (false,
          true, true, true, false, true, true, false)), (String ((Ascii
          (true, false, true, true, false, true, false, false)), (String
          ((Ascii (true, false, true, false, false, true, true, false)),
          (String ((Ascii (false, true, true, true, false, true, true,
          false)), (String ((Ascii (false, false, true, false, true, true,
          true, false)), (String ((Ascii (false, true, false, false, true,
          true, true, false)), (String ((Ascii (true, false, false, true,
          true, true, true, false)), EmptyString))))))))))))))))))))))))))))
| _ ->
  SY (String ((Ascii (true, false, true, false, true, true, true, false)),
    (String ((Ascii (false, true, true, true, false, true, true, false)),
    (String ((Ascii (true, true, false, true, false, true, true, false)),
    (String ((Ascii (false, true, true, true, false, true, true, false)),
    (String ((Ascii (true, true, true, true, false, true, true, false)),
    (String ((Ascii (true, true, true, false, true, true, true, false)),
    (String ((Ascii (false, true, true, true, false, true, true, false)),
    (String ((Ascii (true, false, true, true, false, true, false, false)),
    (String ((Ascii (true, false, true, false, false, true, true, false)),
    (String ((Ascii (false, true, true, true, false, true, true, false)),
    (String ((Ascii (false, false, true, false, true, true, true, false)),
    (String ((Ascii (false, true, false, false, true, true, true, false)),
    (String ((Ascii (true, false, false, true, true, true, true, false)),
    EmptyString))))))))))))))))))))))))))

(** val run : text -> text **)

let run line =
  match parse_sx line with
  | [] ->
    stext (String ((Ascii (false, false, false, false, true, true, true,
      false)), (String ((Ascii (true, false, false, false, false, true, true,
      false)), (String ((Ascii (false, true, false, false, true, true, true,
      false)), (String ((Ascii (true, true, false, false, true, true, true,
      false)), (String ((Ascii (true, false, true, false, false, true, true,
      false)), (String ((Ascii (true, false, true, true, false, true, false,
      false)), (String ((Ascii (true, false, true, false, false, true, true,
      false)), (String ((Ascii (false, true, false, false, true, true, true,
      false)), (String ((Ascii (false, true, false, false, true, true, true,
      false)), (String ((Ascii (true, true, true, true, false, true, true,
      false)), (String ((Ascii (false, true, false, false, true, true, true,
      false)), EmptyString))))))))))))))))))))))
  | x :: l ->
    (match l with
     | [] -> show_sx (dispatch x)
     | _ :: _ ->
       stext (String ((Ascii (false, false, false, false, true, true, true,
         false)), (String ((Ascii (true, false, false, false, false, true,
         true, false)), (String ((Ascii (false, true, false, false, true,
         true, true, false)), (String ((Ascii (true, true, false, false,
         true, true, true, false)), (String ((Ascii (true, false, true,
         false, false, true, true, false)), (String ((Ascii (true, false,
         true, true, false, true, false, false)), (String ((Ascii (true,
         false, true, false, false, true, true, false)), (String ((Ascii
         (false, true, false, false, true, true, true, false)), (String
         ((Ascii (false, true, false, false, true, true, true, false)),
         (String ((Ascii (true, true, true, true, false, true, true, false)),
         (String ((Ascii (false, true, false, false, true, true, true,
         false)), EmptyString)))))))))))))))))))))))
