(* mmCIF writer model: save_mmcif_raw of src/save/mmcif.rs.  The literal text of the writer (format strings of its write!
   invocations) is regenerated from the source (Gen/CifTags.v, T5); this file fills the placeholders and builds the
   aligned atom_site table. *)
From Coq Require Import List Ascii String ZArith QArith Bool.
From PV Require Import Base.Sx Base.Text Base.Num Base.Float Spec.Hier Gen.CifTags Gen.Elements Model.Symmetry Model.SortRenumber
                       Model.PdbLex Model.PdbParse Model.CifParse.
Import ListNotations.
Local Open Scope Z_scope.

(* ---------- f64 arithmetic used by print_float, on exact values ---------- *)
Definition q_of (f : fval) : option Q := option_map Q_of_dy (dy_of_fval f).
Definition f_of_q (q : Q) (neg_zero : bool) : fval :=
  match rnd64 q with
  | Some (0, _) => if neg_zero then FNegZero else FFin 0 0
  | Some d => fval_of_dy d
  | None => if Qle_bool 0 q then FInf else FNegInf
  end.
Definition is_neg (f : fval) : bool := match f with FFin m _ => m <? 0 | FNegZero | FNegInf => true | _ => false end.
Definition fmul (a b : fval) : fval :=
  match q_of a, q_of b with
  | Some x, Some y => f_of_q (Qmult x y) (xorb (is_neg a) (is_neg b))
  | _, _ => FNaN
  end.
Definition fdiv (a b : fval) : fval :=
  match q_of a, q_of b with
  | Some x, Some y => if Qeq_bool y 0 then FNaN else f_of_q (Qdiv x y) (xorb (is_neg a) (is_neg b))
  | _, _ => FNaN
  end.
(* f64::round: to the nearest integer, halves away from zero *)
Definition fround (a : fval) : fval :=
  match a with
  | FFin m e =>
      if 0 <=? e then a else
      let d := 2 ^ (- e) in
      let am := Z.abs m in
      let k := (2 * am + d) / (2 * d) in          (* floor(|x| + 1/2) *)
      if k =? 0 then (if m <? 0 then FNegZero else FFin 0 0) else fval_of_dy (canon (Z.sgn m * k) 0)
  | _ => a
  end.
(* f64::trunc as isize (values of realistic magnitude) *)
Definition ftrunc_Z (a : fval) : Z :=
  match a with
  | FFin m e => if 0 <=? e then m * 2 ^ e else Z.quot m (2 ^ (- e))
  | _ => 0
  end.
Definition f100000 : fval := fval_of_dy (canon 100000 0).

Definition show_int (z : Z) : text := if z <? 0 then "-"%char :: show_Z (- z) else show_Z z.
(* print_float *)
Definition print_float (num : fval) : text :=
  let rounded := fdiv (fround (fmul num f100000)) f100000 in
  if fclose (fround rounded) rounded then (show_int (ftrunc_Z rounded) ++ stext ".0")%list
  else show_f64 rounded.

(* ---------- filling a format string ---------- *)
Fixpoint fill (fmt : text) (args : list text) : text :=
  match fmt with
  | "{"%char :: "}"%char :: r => match args with a :: rest => (a ++ fill r rest)%list | [] => fill r [] end
  | c :: r => c :: fill r args
  | [] => []
  end.
Definition fmt_n (k : nat) : text := stext (fst (nth k cif_writer_formats (""%string, O))).
Definition line (k : nat) (args : list text) : text := (fill (fmt_n k) args ++ [ascii_of_nat 10])%list.

Definition element_symbol (e : Z) : text := stext (nth (Z.to_nat (e - 1)) ELEMENT_SYMBOLS ""%string).
Definition sym_hm (i : nat) : text := match hm_for_index i with Some s => stext s | None => [] end.
Definition sym_z (i : nat) : text := match Symmetry_z i with Some z => show_Z (Z.of_nat z) | None => [] end.

(* ---------- the atom_site table ---------- *)
Definition has_aniso (p : pdb) : bool := existsb (fun a => match a_atf a with Some _ => true | None => false end) (p_atoms p).
Definition otext (o : option text) : text := match o with Some t => t | None => ["."%char] end.
Definition atom_line (anisou : bool) (m : model) (chain_index : Z) (ch : chain) (residue_index : Z) (r : residue) (c : conformer) (a : atom) : list text :=
  ([ (if a_hetero a then stext "HETATM" else stext "ATOM");
     a_id a;
     (match a_elem a with Some e => element_symbol e | None => ["X"%char] end);
     a_name a;
     otext (c_alt c);
     c_name c;
     base26 (Z.to_N chain_index);
     ch_id ch;
     show_Z chain_index;
     show_Z (residue_index + 1);
     show_int (r_num r);
     otext (r_icode r);
     print_float (a_x a); print_float (a_y a); print_float (a_z a);
     print_float (a_occ a); print_float (a_b a);
     show_int (a_charge a);
     show_int (m_serial m) ] ++
   (if anisou then
      match a_atf a with
      | Some t => map print_float t
      | None => repeat ["."%char] 9
      end
    else []))%list.
Fixpoint number_from_Z {A} (n : Z) (l : list A) : list (Z * A) :=
  match l with [] => [] | x :: r => (n, x) :: number_from_Z (n + 1) r end.
Definition table (p : pdb) : list (list text) :=
  let anisou := has_aniso p in
  flat_map (fun m =>
    flat_map (fun ic : Z * chain =>
      flat_map (fun ir : Z * residue =>
        flat_map (fun c => map (atom_line anisou m (fst ic) (snd ic) (fst ir) (snd ir) c) (c_atoms c)) (r_confs (snd ir)))
        (number_from_Z 0 (ch_residues (snd ic))))
      (number_from_Z 1 (m_chains m))) p.
Definition tlen (t : text) : nat := List.length t.
Fixpoint widths (sizes : list nat) (line : list text) : list nat :=
  match sizes, line with
  | s :: ss, t :: ts => Nat.max s (tlen t) :: widths ss ts
  | _, _ => sizes
  end.
Definition spaces (n : nat) : text := repeat " "%char n.
Definition render_line (sizes : list nat) (line : list text) : text :=
  match sizes, line with
  | s0 :: ss, t0 :: ts =>
      (t0 ++ spaces (s0 - tlen t0) ++
       flat_map (fun st : nat * text => let '(s, t) := st in
                  " "%char :: (if is_nil (trim t) then "?"%char :: spaces (s - 1) else (t ++ spaces (s - tlen t))%list))
                (combine ss ts) ++ [ascii_of_nat 10])%list
  | _, _ => [ascii_of_nat 10]
  end.

Definition mat (m : list fval) (k : nat) : text := show_f64 (nth k m (FFin 0 0)).
(* the twelve entries in the order the writer prints them: the 3 x 3 block row by row, then the vector *)
Definition mat_args (m : list fval) : list text :=
  map (mat m) [0; 1; 2; 4; 5; 6; 8; 9; 10; 3; 7; 11]%nat.

Definition save_mmcif (f : pdbfile) : text :=
  let name := match pf_id f with Some n => n | None => ["?"%char] end in
  let p := pf_models f in
  let anisou := has_aniso p in
  let lines := table p in
  let sizes := match lines with
               | l0 :: _ => fold_left widths lines (repeat 1%nat (List.length l0))
               | [] => [] end in
  (line 0 [name; name] ++
   (match pf_cell f with
    | Some c => line 1 ([name] ++ map show_f64 c ++ [match pf_sym f with Some i => sym_z i | None => ["?"%char] end])
    | None => [] end) ++
   (match pf_scale f with Some m => line 2 (name :: mat_args m) | None => [] end) ++
   (match pf_origx f with Some m => line 3 (name :: mat_args m) | None => [] end) ++
   flat_map (fun x : Z * list fval * bool => let '(id, m, given) := x in
               line 4 (show_Z id :: (if given then stext "given" else stext "generate") :: mat_args m)) (pf_mtrix f) ++
   (match pf_sym f with
    | Some i => line 5 [name; sym_hm i; sym_hm i; show_Z (Z.of_nat i)]
    | None => [] end) ++
   line 6 [if anisou then stext cif_writer_aniso_header else []] ++
   flat_map (render_line sizes) lines ++
   line 7 [])%list.
