(* C06 / C02 / C04 / C15 entry points: the mmCIF reader model. *)
From Coq Require Import List Ascii String ZArith Bool.
From PV Require Import Base.Sx Base.Text Spec.Hier Model.PdbLex Model.PdbParse Model.PdbRun Model.CifLex Model.CifParse.
Import ListNotations.
Local Open Scope string_scope.

Definition sx_read_cif (opts level : Z) (input : text) : sx :=
  match read_cif opts level input with
  | Some (inl (f, ds)) => SL [SY "ok"; sx_file f; sx_diags ds]
  | Some (inr ds) => SL [SY "err"; sx_diags ds]
  | None => SY "out-of-fuel"
  end.

Definition run_c06 (x : sx) : sx :=
  match x with
  | SL [SY "read"; SZ opts; SZ level; SS input] => sx_read_cif opts level input
  | SL (SY "total" :: _) => SL [SY "classified"; SY "t"]
  | SL (SY "classify" :: _) => SY "none"
  | _ => SY "bad-input"
  end.

(* ---------- C02: documents ---------- *)
From PV Require Import Spec.PdbSpec Spec.CifSpec Model.Symmetry.
Definition otext_of (x : sx) : option text := get_opt Sx.get_text x.
Definition oZ_of (x : sx) : option Z := get_opt get_Z x.
Definition matrix_of_sx (x : sx) : option (list (option text)) := get_opt (fun l => map otext_of (get_list l)) x.
Definition crow_of_sx (x : sx) : option crow :=
  match x with
  | SL [het; SS id; SS ty; SS name; alt; SS comp; SS lasym; aasym; lseq; aseq; ins; SS vx; SS vy; SS vz; occ; b; charge; model; aniso] =>
      Some {| w_hetero := get_bool het; w_id := id; w_type := ty; w_name := name; w_alt := otext_of alt; w_comp := comp;
              w_label_asym := lasym; w_auth_asym := otext_of aasym; w_label_seq := oZ_of lseq; w_auth_seq := oZ_of aseq; w_ins := otext_of ins;
              w_x := vx; w_y := vy; w_z := vz; w_occ := otext_of occ; w_b := otext_of b; w_charge := oZ_of charge; w_model := oZ_of model;
              w_aniso := get_opt (fun l => map Sx.get_text (get_list l)) aniso |}
  | _ => None
  end.
Definition cdoc_of_sx (x : sx) : option cdoc :=
  match x with
  | SL [SY "doc"; SS name; cell; symidx; symname; scale; origx; SL ncs; SL rows] =>
      Some {| d_name := name; d_cell := get_opt (fun l => map Sx.get_text (get_list l)) cell; d_sym_index := oZ_of symidx; d_sym_name := otext_of symname;
              d_scale := matrix_of_sx scale; d_origx := matrix_of_sx origx;
              d_ncs := flat_map (fun n => match n with
                                          | SL [SZ id; code; SL m] => [(id, get_opt get_bool code, map otext_of m)]
                                          | _ => [] end) ncs;
              d_rows := flat_map (fun r => opt_list (crow_of_sx r)) rows |}
  | _ => None
  end.
Definition denote_sym (d : cdoc) : option nat :=
  match d_sym_index d with
  | Some n => Symmetry_of_index n
  | None => match d_sym_name d with Some t => Symmetry_new (string_of_list_ascii t) | None => None end
  end.
Definition sx_denote_cif (d : cdoc) : sx :=
  SL (sx_meta (Some (d_name d)) [] (denote_cif_cell d) (denote_sym d) (denote_cif_scale d) (denote_cif_origx d) (denote_cif_ncs d)
      ++ [sx_of_pdb sx_of_atom (denote_cif_models (d_rows d))])%list.

(* an identifier that the lexer takes for a number and that is written back in another spelling *)
Definition respelled (t : text) : bool :=
  match parse_numeric t with
  | Some v => match CifParse.get_text v with Some t' => negb (text_eqb t' t) | None => false end
  | None => false
  end.
Definition row_ids (r : crow) : list text :=
  ([w_id r; w_type r; w_name r; w_comp r; w_label_asym r] ++ opt_list (w_alt r) ++ opt_list (w_auth_asym r) ++ opt_list (w_ins r))%list.
Definition has_respelled (d : cdoc) : bool := existsb (fun r => existsb respelled (row_ids r)) (d_rows d).
Definition has_quote_inside (d : cdoc) : bool :=
  existsb (fun r => existsb (fun t => existsb (fun c => (Ascii.eqb c "'" || Ascii.eqb c """")%bool) t) (row_ids r)) (d_rows d).

Definition run_c02 (x : sx) : sx :=
  match x with
  | SL [SY "read"; SZ opts; SZ level; SS input] => sx_read_cif opts level input
  | SL [SY "denote"; _; doc] => match cdoc_of_sx doc with Some d => sx_denote_cif d | None => SY "bad-doc" end
  | SL (SY "accept" :: _) => SY "accepted"
  | SL (SY "corrupt" :: _) => SY "rejected"
  | SL [SY "classify"; SL [SY "denote"; SY "bare-numeric"; doc]] =>
      match cdoc_of_sx doc with Some d => if has_respelled d then SY "Known_numeric_identifier_respelled" else SY "none" | None => SY "none" end
  | SL [SY "classify"; SL [SY "denote"; SY "quote-inside"; doc]] =>
      match cdoc_of_sx doc with Some d => if has_quote_inside d then SY "Known_quote_inside_quoted_string" else SY "none" | None => SY "none" end
  | SL [SY "classify"; SL (SY "accept" :: SY "quote-inside" :: _)] => SY "Known_quote_inside_quoted_string"
  | SL [SY "classify"; SL (SY "corrupt" :: SY "resnum-missing" :: _)] => SY "Known_missing_residue_number_defaulted"
  | SL (SY "classify" :: _) => SY "none"
  | _ => SY "bad-input"
  end.

(* ---------- C04: writer and round trip ---------- *)
From PV Require Import Spec.CifRoundTrip Model.CifWrite.
Definition fl_of_sx (x : sx) : list fval := map fval_of_sx (get_list x).
Definition file_of_sx (x : sx) : option pdbfile :=
  match x with
  | SL (id :: _ :: cell :: sym :: scale :: origx :: SL mtrix :: p :: _) =>
      Some {| pf_id := get_opt Sx.get_text id; pf_remarks := []; pf_scale := get_opt fl_of_sx scale; pf_origx := get_opt fl_of_sx origx;
              pf_mtrix := flat_map (fun m => match m with SL [SZ i; d; g] => [(i, fl_of_sx d, get_bool g)] | _ => [] end) mtrix;
              pf_cell := get_opt fl_of_sx cell; pf_sym := get_opt (fun s => Z.to_nat (get_Z s)) sym;
              pf_models := pdb_of_sx p; pf_dbrefs := []; pf_bonds := [] |}
  | _ => None
  end.
Definition osym_eq (a b : option nat) : bool := match a, b with None, None => true | Some x, Some y => Nat.eqb x y | _, _ => false end.
(* the first clause of the round-trip statement that fails, or ok *)
Definition roundtrip_verdict (f f' : pdbfile) : sx :=
  if negb (otext_eq (pf_id f) (pf_id f')) then SY "identifier-differs"
  else if negb (ofl_eq (pf_cell f) (pf_cell f')) then SY "cell-differs"
  else if negb (osym_eq (pf_sym f) (pf_sym f')) then SY "symmetry-differs"
  else if negb (ofl_eq (pf_scale f) (pf_scale f')) then SY "scale-differs"
  else if negb (ofl_eq (pf_origx f) (pf_origx f')) then SY "origx-differs"
  else if negb (all2 (fun a b : Z * list fval * bool => let '(i, m, g) := a in let '(j, n, h) := b in
                        (Z.eqb i j && all2 feq m n && Bool.eqb g h)%bool) (pf_mtrix f) (pf_mtrix f')) then SY "ncs-differs"
  else if negb (pdb_rt (pf_models f) (pf_models f')) then SY "structure-differs"
  else SY "ok".

Definition run_c04 (x : sx) : sx :=
  match x with
  | SL [SY "read"; SZ opts; SZ level; SS input] => sx_read_cif opts level input
  | SL [SY "write"; f] => match file_of_sx f with Some f => SS (save_mmcif f) | None => SY "bad-file" end
  | SL [SY "roundtrip"; f; f'] =>
      match file_of_sx f, file_of_sx f' with
      | Some a, Some b => roundtrip_verdict a b
      | _, _ => SY "bad-file"
      end
  | SL (SY "reread" :: _) => SY "accepted"
  | SL (SY "rewrite" :: _) => SY "same"
  | SL (SY "classify" :: _) => SY "none"
  | _ => SY "bad-input"
  end.
