(* C13 model: TransformationMatrix over the rationals (exact arithmetic).  The Rust code evaluates the same
   expressions in binary64 with fused multiply-adds; on inputs whose products and sums are exactly representable
   the two coincide, elsewhere the implementation is compared against this exact value within a stated bound. *)
From Coq Require Import List QArith ZArith Bool.
Import ListNotations.
Local Open Scope Q_scope.

Record mat : Type := { m00 : Q; m01 : Q; m02 : Q; m03 : Q; m10 : Q; m11 : Q; m12 : Q; m13 : Q; m20 : Q; m21 : Q; m22 : Q; m23 : Q }.
Definition pt : Type := (Q * Q * Q)%type.

Definition identity : mat := {| m00 := 1; m01 := 0; m02 := 0; m03 := 0; m10 := 0; m11 := 1; m12 := 0; m13 := 0; m20 := 0; m21 := 0; m22 := 1; m23 := 0 |}.
Definition translation (x y z : Q) : mat := {| m00 := 1; m01 := 0; m02 := 0; m03 := x; m10 := 0; m11 := 1; m12 := 0; m13 := y; m20 := 0; m21 := 0; m22 := 1; m23 := z |}.
Definition magnify (f : Q) : mat := {| m00 := f; m01 := 0; m02 := 0; m03 := 0; m10 := 0; m11 := f; m12 := 0; m13 := 0; m20 := 0; m21 := 0; m22 := f; m23 := 0 |}.
Definition scale (x y z : Q) : mat := {| m00 := x; m01 := 0; m02 := 0; m03 := 0; m10 := 0; m11 := y; m12 := 0; m13 := 0; m20 := 0; m21 := 0; m22 := z; m23 := 0 |}.
(* rotation_x/y/z with c = cos, s = sin of the angle *)
Definition rot_x (c s : Q) : mat := {| m00 := 1; m01 := 0; m02 := 0; m03 := 0; m10 := 0; m11 := c; m12 := - s; m13 := 0; m20 := 0; m21 := s; m22 := c; m23 := 0 |}.
Definition rot_y (c s : Q) : mat := {| m00 := c; m01 := 0; m02 := s; m03 := 0; m10 := 0; m11 := 1; m12 := 0; m13 := 0; m20 := - s; m21 := 0; m22 := c; m23 := 0 |}.
Definition rot_z (c s : Q) : mat := {| m00 := c; m01 := - s; m02 := 0; m03 := 0; m10 := s; m11 := c; m12 := 0; m13 := 0; m20 := 0; m21 := 0; m22 := 1; m23 := 0 |}.

(* TransformationMatrix::apply *)
Definition apply (m : mat) (p : pt) : pt :=
  let '(x, y, z) := p in
  (z * m02 m + (x * m00 m + y * m01 m) + m03 m,
   z * m12 m + (x * m10 m + y * m11 m) + m13 m,
   z * m22 m + (x * m20 m + y * m21 m) + m23 m).
(* TransformationMatrix::combine: self is applied before other *)
Definition combine (a b : mat) : mat :=
  {| m00 := m02 b * m20 a + (m00 b * m00 a + m01 b * m10 a);
     m01 := m02 b * m21 a + (m00 b * m01 a + m01 b * m11 a);
     m02 := m02 b * m22 a + (m00 b * m02 a + m01 b * m12 a);
     m03 := m02 b * m23 a + (m00 b * m03 a + m01 b * m13 a) + m03 b;
     m10 := m12 b * m20 a + (m10 b * m00 a + m11 b * m10 a);
     m11 := m12 b * m21 a + (m10 b * m01 a + m11 b * m11 a);
     m12 := m12 b * m22 a + (m10 b * m02 a + m11 b * m12 a);
     m13 := m12 b * m23 a + (m10 b * m03 a + m11 b * m13 a) + m13 b;
     m20 := m22 b * m20 a + (m20 b * m00 a + m21 b * m10 a);
     m21 := m22 b * m21 a + (m20 b * m01 a + m21 b * m11 a);
     m22 := m22 b * m22 a + (m20 b * m02 a + m21 b * m12 a);
     m23 := m22 b * m23 a + (m20 b * m03 a + m21 b * m13 a) + m23 b |}.
Definition multiply_translation (m : mat) (f : pt) : mat :=
  let '(fx, fy, fz) := f in
  {| m00 := m00 m; m01 := m01 m; m02 := m02 m; m03 := m03 m * fx; m10 := m10 m; m11 := m11 m; m12 := m12 m; m13 := m13 m * fy;
     m20 := m20 m; m21 := m21 m; m22 := m22 m; m23 := m23 m * fz |}.

Definition pt_eq (p q : pt) : Prop :=
  let '(a, b, c) := p in let '(d, e, f) := q in a == d /\ b == e /\ c == f.
Definition dist2 (p q : pt) : Q :=
  let '(a, b, c) := p in let '(d, e, f) := q in (a - d) * (a - d) + (b - e) * (b - e) + (c - f) * (c - f).
Definition dot (p q : pt) : Q := let '(a, b, c) := p in let '(d, e, f) := q in a * d + b * e + c * f.
Definition sub (p q : pt) : pt := let '(a, b, c) := p in let '(d, e, f) := q in (a - d, b - e, c - f).
