(* C09: the canonical walk computed with the accessors translated from the Rust source (Gen/Accessors.v):
   the translator's output run against the implementation. *)
From Coq Require Import List Ascii String ZArith Bool.
From PV Require Import Base.Sx Base.Text Spec.Hier Gen.Accessors Model.Edit.
Import ListNotations.
Local Open Scope string_scope.

Definition id_atom (a : atom) : sx := SL [SZ (a_serial a); SS (a_name a)].
Definition id_conf (c : conformer) : sx := SL [SS (c_name c); sopt SS (c_alt c)].
Definition id_res (r : residue) : sx := SL [SZ (r_num r); sopt SS (r_icode r)].
Definition id_chain (c : chain) : sx := SS (ch_id c).
Definition id_model (m : model) : sx := SZ (m_serial m).
Definition n (k : nat) : sx := SZ (Z.of_nat k).

Definition walk_conformer (c : conformer) : sx :=
  SL [SL [n (Conformer_atom_count c)]; SL (map id_atom (Conformer_atoms c))].
Definition walk_residue (r : residue) : sx :=
  SL [SL [n (Residue_conformer_count r); n (Residue_atom_count r)];
      SL (map id_conf (Residue_conformers r)); SL (map id_atom (Residue_atoms r));
      SL (map (fun t : atom * conformer => SL [id_atom (fst t); id_conf (snd t)]) (Residue_atoms_with_hierarchy r))].
Definition walk_chain (c : chain) : sx :=
  SL [SL [n (Chain_residue_count c); n (Chain_conformer_count c); n (Chain_atom_count c)];
      SL (map id_res (Chain_residues c)); SL (map id_conf (Chain_conformers c)); SL (map id_atom (Chain_atoms c));
      SL (map (fun t : atom * conformer * residue => let '(a, cf, r) := t in SL [id_atom a; id_conf cf; id_res r]) (Chain_atoms_with_hierarchy c))].
Definition walk_model (m : model) : sx :=
  SL [SL [n (Model_chain_count m); n (Model_residue_count m); n (Model_conformer_count m); n (Model_atom_count m)];
      SL (map id_chain (Model_chains m)); SL (map id_res (Model_residues m)); SL (map id_conf (Model_conformers m)); SL (map id_atom (Model_atoms m));
      SL (map (fun t : atom * conformer * residue * chain => let '(a, cf, r, ch) := t in SL [id_atom a; id_conf cf; id_res r; id_chain ch]) (Model_atoms_with_hierarchy m))].
Definition walk_pdb (p : pdb) : sx :=
  SL [SL [n (PDB_model_count p); n (PDB_chain_count p); n (PDB_residue_count p); n (PDB_conformer_count p); n (PDB_atom_count p);
          n (PDB_total_chain_count p); n (PDB_total_residue_count p); n (PDB_total_conformer_count p); n (PDB_total_atom_count p)];
      SL (map id_model (PDB_models p)); SL (map id_chain (PDB_chains p)); SL (map id_res (PDB_residues p));
      SL (map id_conf (PDB_conformers p)); SL (map id_atom (PDB_atoms p));
      SL (map (fun t : atom * conformer * residue * chain * model => let '(a, cf, r, ch, m) := t in SL [id_atom a; id_conf cf; id_res r; id_chain ch; id_model m])
              (PDB_atoms_with_hierarchy p));
      SL (map walk_model (PDB_models p)); SL (map walk_chain (PDB_chains p)); SL (map walk_residue (PDB_residues p));
      SL (map walk_conformer (PDB_conformers p))].
(* the same through the parallel twins where they exist *)
Definition walk_pdb_par (p : pdb) : sx :=
  SL [SL [n (PDB_model_count p); n (PDB_chain_count p); n (PDB_par_residue_count p); n (PDB_par_conformer_count p); n (PDB_par_atom_count p);
          n (PDB_par_total_chain_count p); n (PDB_par_total_residue_count p); n (PDB_par_total_conformer_count p); n (PDB_par_total_atom_count p)];
      SL (map id_model (PDB_par_models p)); SL (map id_chain (PDB_par_chains p)); SL (map id_res (PDB_par_residues p));
      SL (map id_conf (PDB_par_conformers p)); SL (map id_atom (PDB_par_atoms p))].

(* index accessors: (level i) -> id or - *)
Definition nth_pdb (level : string) (p : pdb) (i : nat) : sx :=
  match level with
  | "model" => sopt id_model (PDB_model p i)
  | "chain" => sopt id_chain (PDB_chain p i)
  | "residue" => sopt id_res (PDB_residue p i)
  | "conformer" => sopt id_conf (PDB_conformer p i)
  | _ => sopt id_atom (PDB_atom p i)
  end.

Definition run_c09gen (x : sx) : sx :=
  match x with
  | SL [SY "walk"; p] => walk_pdb (pdb_of_sx p)
  | SL [SY "walkpar"; p] => walk_pdb_par (pdb_of_sx p)
  | SL [SY "nth"; SY level; p; SZ i] => nth_pdb level (pdb_of_sx p) (Z.to_nat i)
  | SL (SY "classify" :: _) => SY "none"
  | _ => SY "bad-input"
  end.
