(* C18 entry points: the model with the regenerated table, and the model with the documented ranges (oracle). *)
From Coq Require Import List Ascii String ZArith Bool.
From PV Require Import Base.Sx Base.Text Spec.Hier Spec.ValidateSpec Model.Validate Gen.ValidateTable.
Import ListNotations.
Local Open Scope string_scope.
Definition run_c18gen (x : sx) : sx :=
  match x with
  | SL [SY "validate_pdb"; p] => show_diags (validate_pdb_with validate_rules (pdb_of_sx p))
  | SL (SY "classify" :: _) => SY "none"
  | _ => SY "bad-input"
  end.
