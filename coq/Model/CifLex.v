(* mmCIF reader model, part 1: the lexer of src/read/mmcif/lexer.rs (after the C06 repairs), on ASCII text.
   The position bookkeeping (line, column) only feeds the contexts of diagnostics and is not modelled; a diagnostic is
   its level and short description.  Loops run on fuel; Props/C06.v proves that the fuel given by lex_cif never runs out. *)
From Coq Require Import List Ascii String ZArith QArith Bool.
From PV Require Import Base.Sx Base.Text Base.Float Spec.Hier Model.PdbLex.
Import ListNotations.
Local Open Scope Z_scope.

Inductive cval : Type := VInap | VUnk | VNum (f : fval) | VNumU (f : fval) (u : Z) | VText (t : text).
Inductive ditem : Type := DSingle (name : text) (v : cval) | DLoop (header : list text) (rows : list (list cval)).
Inductive item : Type := IData (d : ditem) | IFrame (name : text) (items : list ditem).
Record block : Type := { b_name : text; b_items : list item }.

Definition cerr (s : string) : diag := mkd DBreaking s 0.

(* ---------- character classes ---------- *)
Definition ccode (c : ascii) : Z := Z.of_N (N_of_ascii c).
(* trim_whitespace: space, tab, \n, \r *)
Definition is_tws (c : ascii) : bool := let n := ccode c in ((n =? 32) || (n =? 9) || (n =? 10) || (n =? 13))%bool.
(* char::is_ascii_whitespace: space, tab, \n, form feed, \r *)
Definition is_aws (c : ascii) : bool := let n := ccode c in ((n =? 32) || (n =? 9) || (n =? 10) || (n =? 12) || (n =? 13))%bool.
Definition is_eol (c : ascii) : bool := let n := ccode c in ((n =? 10) || (n =? 13))%bool.
Definition is_digit (c : ascii) : bool := let n := ccode c in ((48 <=? n) && (n <=? 57))%bool.
(* is_ordinary: ASCII graphic and none of hash, dollar, both quotes, underscore, brackets, semicolon *)
Definition is_ordinary (c : ascii) : bool :=
  let n := ccode c in
  ((33 <=? n) && (n <=? 126) && negb ((n =? 35) || (n =? 36) || (n =? 39) || (n =? 34) || (n =? 95) || (n =? 91) || (n =? 93) || (n =? 59)))%bool.

(* ---------- trim_comments_and_whitespace: white space and '#' comments up to the end of their line ---------- *)
Fixpoint tcw (in_comment : bool) (t : text) : text :=
  match t with
  | [] => []
  | c :: r =>
    if in_comment then (if is_eol c then tcw false r else tcw true r)
    else if is_tws c then tcw false r
    else if Ascii.eqb c "#" then tcw true r
    else t
  end.

(* ---------- start_with: case-insensitive prefix (the pattern is lower case) ---------- *)
Fixpoint strip_ci (pat t : text) : option text :=
  match pat with
  | [] => Some t
  | p :: ps => match t with
               | c :: cs => if Ascii.eqb p (lower_char c) then strip_ci ps cs else None
               | [] => None
               end
  end.
Definition starts_ci (pat : string) (t : text) : option text := strip_ci (stext pat) t.

(* ---------- parse_identifier: up to the next ASCII white space ---------- *)
Fixpoint span_id (t : text) : text * text :=
  match t with
  | [] => ([], [])
  | c :: r => if is_aws c then ([], t) else let '(a, b) := span_id r in (c :: a, b)
  end.

(* ---------- parse_numeric ---------- *)
Fixpoint span_digits (t : text) : text * text :=
  match t with
  | [] => ([], [])
  | c :: r => if is_digit c then let '(a, b) := span_digits r in (c :: a, b) else ([], t)
  end.
Definition is_sign (c : ascii) : bool := (Ascii.eqb c "-" || Ascii.eqb c "+")%bool.
Definition drop_sign (t : text) : text := match t with c :: r => if is_sign c then r else t | [] => t end.
(* <f64 as FromStr> of a text of the decimal shape; very large exponents are decided without building the power of ten
   (tokens are shorter than 4000 characters) *)
Definition f64_of_decimal (t : text) : option fval :=
  let neg := match t with "-"%char :: _ => true | _ => false end in
  let body := drop_sign t in
  let '(ip, r1) := span_digits body in
  let '(fp, r2) := match r1 with "."%char :: r => span_digits r | _ => ([], r1) end in
  let zero_mant := forallb (fun c => Ascii.eqb c "0") (ip ++ fp)%list in
  let ex := match r2 with
            | _ :: r => let eneg := match r with "-"%char :: _ => true | _ => false end in
                        let '(ed, _) := span_digits (drop_sign r) in
                        let v := nat_of_digits ed in if eneg then - v else v
            | [] => 0
            end in
  if zero_mant then (match parse_dec (if neg then "-"%char :: ip ++ "."%char :: fp else ip ++ "."%char :: fp)%list with
                     | Some _ => Some (if neg then FNegZero else FFin 0 0) | None => None end)
  else if 5000 <=? ex then Some (if neg then FNegInf else FInf)
  else if ex <=? -5000 then Some (if neg then FNegZero else FFin 0 0)
  else match parse_dec t with
       | Some q => match rnd64 q with
                   | Some (0, _) => Some (if neg then FNegZero else FFin 0 0)
                   | Some d => Some (fval_of_dy d)
                   | None => Some (if neg then FNegInf else FInf)
                   end
       | None => None
       end.
Definition max_u32 : Z := 4294967295.
Definition parse_numeric (t : text) : option cval :=
  let s1 := drop_sign t in
  let '(ip, r1) := span_digits s1 in
  let '(fp, r2) := match r1 with "."%char :: r => span_digits r | _ => ([], r1) end in
  (* the exponent: 'e' has to be followed by an optional sign and at least one digit, anything else is no number *)
  let exp_part : option (text * bool) :=
    match r2 with
    | c :: r => if (Ascii.eqb c "e" || Ascii.eqb c "E")%bool then
                  match r with
                  | [] => None
                  | _ => let '(ed, r5) := span_digits (drop_sign r) in if is_nil ed then None else Some (r5, true)
                  end
                else Some (r2, false)
    | [] => Some (r2, false)
    end in
  match exp_part with
  | None => None
  | Some (r5, exponent_set) =>
    let number_end := if exponent_set then r5 else r2 in
    let unc : option (option Z * text) :=
      match r5 with
      | "("%char :: r => let '(ud, r6) := span_digits r in
                         let u := nat_of_digits ud in
                         if max_u32 <? u then None else
                         match r6 with ")"%char :: r7 => Some (Some u, r7) | _ => None end
      | _ => Some (None, r5)
      end in
    match unc with
    | None => None
    | Some (u, r7) =>
      if ((negb (is_nil ip) || negb (is_nil fp)) && is_nil r7)%bool then
        match f64_of_decimal (firstn (List.length t - List.length number_end) t) with
        | Some f => Some (match u with Some u => VNumU f u | None => VNum f end)
        | None => None
        end
      else None
    end
  end.

(* ---------- quoted strings and text fields ---------- *)
Fixpoint enclosed (pat : ascii) (r acc : text) : option (text * text) :=
  match r with
  | [] => None
  | c :: r' => if Ascii.eqb c pat then Some (rev acc, r') else if is_eol c then None else enclosed pat r' (c :: acc)
  end.
(* after the opening ';': the text runs to the first ';' that follows an end of line, the content keeps that end of line *)
Fixpoint text_field (eol : bool) (r acc : text) : option (text * text) :=
  match r with
  | [] => None
  | c :: r' => if (eol && Ascii.eqb c ";")%bool then Some (rev acc, r')
               else text_field (is_eol c) r' (c :: acc)
  end.

(* ---------- parse_value: the value or the diagnostic, and the remaining text ---------- *)
Definition reserved (t : text) : bool :=
  match starts_ci "data_" t, starts_ci "global_" t, starts_ci "loop_" t, starts_ci "save_" t, starts_ci "stop_" t with
  | None, None, None, None, None => false
  | _, _, _, _, _ => true
  end.
Definition parse_value (t0 : text) : (cval + diag) * text :=
  let t := tcw false t0 in
  match t with
  | [] => (inr (cerr "Empty value"), t)
  | c :: r =>
    if reserved t then (inr (cerr "Use of reserved word"), t)
    else if Ascii.eqb c "." then
      let '(id, rest) := span_id t in
      match parse_numeric id with Some v => (inl v, rest) | None => (inl VInap, r) end
    else if Ascii.eqb c "?" then (inl VUnk, r)
    else if Ascii.eqb c "'" then
      match enclosed "'" r [] with Some (s, rest) => (inl (VText s), rest) | None => (inr (cerr "Invalid enclosing"), t) end
    else if Ascii.eqb c """" then
      match enclosed """" r [] with Some (s, rest) => (inl (VText s), rest) | None => (inr (cerr "Invalid enclosing"), t) end
    else if Ascii.eqb c ";" then
      match text_field false r [] with Some (s, rest) => (inl (VText s), rest) | None => (inr (cerr "Multiline string not finished"), t) end
    else if is_ordinary c then
      let '(id, rest) := span_id t in
      match parse_numeric id with Some v => (inl v, rest) | None => (inl (VText id), rest) end
    else (inr (cerr "Invalid value"), t)
  end.

(* ---------- loops on fuel: None = out of fuel ---------- *)
Fixpoint values (fuel : nat) (t : text) : option (list cval * text) :=
  match fuel with
  | O => None
  | S f => match parse_value t with
           | (inl v, t') => match values f t' with Some (vs, t'') => Some (v :: vs, t'') | None => None end
           | (inr _, t') => Some ([], t')
           end
  end.
Fixpoint headers (fuel : nat) (t : text) : option (list text * text) :=
  match fuel with
  | O => None
  | S f => match starts_ci "_" t with
           | Some t1 => let '(n, t2) := span_id t1 in
                        match headers f (tcw false t2) with Some (hs, t3) => Some (n :: hs, t3) | None => None end
           | None => Some ([], t)
           end
  end.
Fixpoint chunk (fuel : nat) (k : nat) (l : list cval) : list (list cval) :=
  match fuel with
  | O => []
  | S f => match l with [] => [] | _ => firstn k l :: chunk f k (skipn k l) end
  end.

Definition parse_data_item (fuel : nat) (t0 : text) : option ((ditem + diag) * text) :=
  let t := tcw false t0 in
  match starts_ci "loop_" t with
  | Some t1 =>
    match headers fuel (tcw false t1) with
    | None => None
    | Some (hs, t2) =>
      match values fuel t2 with
      | None => None
      | Some (vs, t3) =>
        let columns := List.length hs in
        if Nat.eqb columns 0 then Some (inr (cerr "Loop has no header"), t3)
        else if Nat.eqb (Nat.modulo (List.length vs) columns) 0 then Some (inl (DLoop hs (chunk (S (List.length vs)) columns vs)), t3)
        else Some (inr (cerr "Loop has incorrect number of data items"), t3)
      end
    end
  | None =>
    match starts_ci "_" t with
    | Some t1 =>
      let '(name, t2) := span_id t1 in
      match parse_value t2 with
      | (inl v, t3) => Some (inl (DSingle name v), t3)
      | (inr _, t3) => Some (inr (cerr "No valid Value"), t3)
      end
    | None => Some (inr (cerr "No valid DataItem"), t)
    end
  end.

Fixpoint frame_items (fuel : nat) (t : text) : option (list ditem * text) :=
  match fuel with
  | O => None
  | S f => match parse_data_item (S f) t with
           | None => None
           | Some (inl d, t') => match frame_items f t' with Some (ds, t'') => Some (d :: ds, t'') | None => None end
           | Some (inr _, t') => Some ([], t')
           end
  end.

Definition parse_item (fuel : nat) (t : text) : option ((item + diag) * text) :=
  match starts_ci "save_" t with
  | Some t1 =>
    let '(name, t2) := span_id t1 in
    match frame_items fuel t2 with
    | None => None
    | Some (ds, t3) =>
      match starts_ci "save_" t3 with
      | Some t4 => Some (inl (IFrame name ds), t4)
      | None => Some (inr (cerr "No matching 'save_' found"), t3)
      end
    end
  | None =>
    match parse_data_item fuel t with
    | None => None
    | Some (inl d, t') => Some (inl (IData d), t')
    | Some (inr e, t') => Some (inr e, t')
    end
  end.

Fixpoint block_items (fuel : nat) (t0 : text) : option (list item + diag) :=
  match fuel with
  | O => None
  | S f =>
    let t := tcw false t0 in
    match t with
    | [] => Some (inl [])
    | _ => match parse_item (S f) t with
           | None => None
           | Some (inl it, t') => match block_items f t' with
                                  | Some (inl its) => Some (inl (it :: its))
                                  | other => other
                                  end
           | Some (inr e, _) => Some (inr e)
           end
    end
  end.

Definition lex_cif_fuel (fuel : nat) (input : text) : option (block + diag) :=
  let t := tcw false input in
  match starts_ci "data_" t with
  | None => Some (inr (cerr "Data Block not opened"))
  | Some t1 =>
    let '(name, t2) := span_id t1 in
    match block_items fuel t2 with
    | None => None
    | Some (inl its) => Some (inl {| b_name := name; b_items := its |})
    | Some (inr e) => Some (inr e)
    end
  end.
Definition lex_cif (input : text) : option (block + diag) := lex_cif_fuel (S (S (List.length input))) input.
