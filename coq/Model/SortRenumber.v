(* C11 model, part 1: the Ord implementations, the sort family, renumber, base-26 letters. *)
From Coq Require Import List Ascii String ZArith Bool Lia.
From PV Require Import Base.Sx Base.Text Base.Sorting2 Spec.Hier.
Import ListNotations.

(* ----- the Ord implementations ----- *)
Definition char_cmp (a b : ascii) : comparison := N.compare (code a) (code b).
Definition text_cmp : text -> text -> comparison := list_cmp char_cmp.     (* str::cmp is byte-wise *)
Definition otext_cmp : option text -> option text -> comparison := opt_cmp text_cmp.   (* None < Some *)
Definition atom_cmp (a b : atom) := Z.compare (a_serial a) (a_serial b).
Definition conformer_cmp (a b : conformer) := lex (text_cmp (c_name a) (c_name b)) (otext_cmp (c_alt a) (c_alt b)).
Definition residue_cmp (a b : residue) := lex (Z.compare (r_num a) (r_num b)) (otext_cmp (r_icode a) (r_icode b)).
Definition chain_cmp (a b : chain) := text_cmp (ch_id a) (ch_id b).
Definition model_cmp (a b : model) := Z.compare (m_serial a) (m_serial b).

Lemma good_text : good_cmp text_cmp.
Proof. apply good_list. apply (good_proj code N.compare good_N). Qed.
Lemma good_otext : good_cmp otext_cmp. Proof. apply good_opt, good_text. Qed.
Lemma good_atom : good_cmp atom_cmp. Proof. apply (good_proj a_serial Z.compare good_Z). Qed.
Lemma good_conformer : good_cmp conformer_cmp.
Proof. apply (good_lex (fun a b => text_cmp (c_name a) (c_name b)) (fun a b => otext_cmp (c_alt a) (c_alt b))).
  - apply (good_proj c_name text_cmp good_text). - apply (good_proj c_alt otext_cmp good_otext). Qed.
Lemma good_residue : good_cmp residue_cmp.
Proof. apply (good_lex (fun a b => Z.compare (r_num a) (r_num b)) (fun a b => otext_cmp (r_icode a) (r_icode b))).
  - apply (good_proj r_num Z.compare good_Z). - apply (good_proj r_icode otext_cmp good_otext). Qed.
Lemma good_chain : good_cmp chain_cmp. Proof. apply (good_proj ch_id text_cmp good_text). Qed.
Lemma good_model : good_cmp model_cmp. Proof. apply (good_proj m_serial Z.compare good_Z). Qed.

(* ----- sort at every level (slice::sort and rayon's par_sort are stable sorts) ----- *)
Definition Conformer_sort (c : conformer) : conformer :=
  {| c_name := c_name c; c_alt := c_alt c; c_mod := c_mod c; c_atoms := ssort atom atom_cmp (c_atoms c) |}.
Definition Residue_sort (r : residue) : residue :=
  {| r_num := r_num r; r_icode := r_icode r; r_confs := ssort conformer conformer_cmp (r_confs r) |}.
Definition Chain_sort (c : chain) : chain :=
  {| ch_id := ch_id c; ch_residues := ssort residue residue_cmp (ch_residues c) |}.
Definition Model_sort (m : model) : model :=
  {| m_serial := m_serial m; m_chains := ssort chain chain_cmp (m_chains m) |}.
Definition PDB_sort (p : pdb) : pdb := ssort model model_cmp p.

(* map over one level of the hierarchy *)
Definition map_confs_r (f : conformer -> conformer) (r : residue) : residue :=
  {| r_num := r_num r; r_icode := r_icode r; r_confs := map f (r_confs r) |}.
Definition map_res_ch (f : residue -> residue) (c : chain) : chain :=
  {| ch_id := ch_id c; ch_residues := map f (ch_residues c) |}.
Definition map_chains_m (f : chain -> chain) (m : model) : model :=
  {| m_serial := m_serial m; m_chains := map f (m_chains m) |}.

(* PDB::full_sort: models, then the chains of every model, the residues of every chain, ... *)
Definition full_sort (p : pdb) : pdb :=
  let p1 := PDB_sort p in
  let p2 := map Model_sort p1 in
  let p3 := map (map_chains_m Chain_sort) p2 in
  let p4 := map (map_chains_m (map_res_ch Residue_sort)) p3 in
  map (map_chains_m (map_res_ch (map_confs_r Conformer_sort))) p4.

(* ----- helper.rs number_to_base26 ----- *)
Definition letter (n : N) : ascii := ascii_of_N (65 + n mod 26).
Fixpoint base26_go (fuel : nat) (n : N) (acc : text) : text :=
  (* acc holds the more significant... no: the digits already produced are less significant and end up last *)
  match fuel with
  | O => acc
  | S f => let acc' := letter n :: acc in
           if N.eqb (n / 26) 0 then acc' else base26_go f (n / 26) acc'
  end.
Definition base26 (n : N) : text := base26_go (S (N.to_nat (N.log2 n))) n [].

(* ----- PDB::renumber ----- *)
Fixpoint number_atoms (l : list atom) (next : Z) : list atom * Z :=
  match l with
  | [] => ([], next)
  | a :: r =>
      let '(r', n') := number_atoms r (next + 1) in
      ({| a_hetero := a_hetero a; a_serial := next; a_id := a_id a; a_name := a_name a;
          a_x := a_x a; a_y := a_y a; a_z := a_z a; a_occ := a_occ a; a_b := a_b a;
          a_elem := a_elem a; a_charge := a_charge a; a_atf := a_atf a |} :: r', n')
  end.
Definition set_atoms (c : conformer) (l : list atom) : conformer :=
  {| c_name := c_name c; c_alt := c_alt c; c_mod := c_mod c; c_atoms := l |}.
Definition set_alt (c : conformer) (a : option text) : conformer :=
  {| c_name := c_name c; c_alt := a; c_mod := c_mod c; c_atoms := c_atoms c |}.
Fixpoint number_confs (l : list conformer) (next : Z) : list conformer * Z :=
  match l with
  | [] => ([], next)
  | c :: r => let '(atoms, n1) := number_atoms (c_atoms c) next in
              let '(r', n2) := number_confs r n1 in (set_atoms c atoms :: r', n2)
  end.
(* alternate locations: cleared when the residue has one conformer, letters A, B, ... otherwise *)
Fixpoint letter_confs (l : list conformer) (i : N) : list conformer :=
  match l with [] => [] | c :: r => set_alt c (Some (base26 i)) :: letter_confs r (i + 1) end.
Definition relabel_confs (l : list conformer) : list conformer :=
  match l with
  | [] => []
  | [c] => [set_alt c None]
  | _ => letter_confs l 0
  end.
Fixpoint number_residues (l : list residue) (next_atom next_res : Z) : list residue * Z * Z :=
  match l with
  | [] => ([], next_atom, next_res)
  | r :: rest =>
      let '(cs, na) := number_confs (r_confs r) next_atom in
      let '(rest', na', nr') := number_residues rest na (next_res + 1) in
      ({| r_num := next_res; r_icode := None; r_confs := relabel_confs cs |} :: rest', na', nr')
  end.
Fixpoint number_chains (l : list chain) (i : N) (next_atom next_res : Z) : list chain :=
  match l with
  | [] => []
  | c :: rest =>
      let '(rs, na, nr) := number_residues (ch_residues c) next_atom next_res in
      {| ch_id := base26 i; ch_residues := rs |} :: number_chains rest (i + 1) na nr
  end.
Fixpoint renumber_models (l : list model) (k : Z) : list model :=
  match l with
  | [] => []
  | m :: rest => {| m_serial := k; m_chains := number_chains (m_chains m) 0 1 1 |} :: renumber_models rest (k + 1)
  end.
Definition renumber (p : pdb) : pdb := renumber_models p 1.
