(* C11 model, part 2: slice::binary_search_by (the size-halving loop of core::slice) and the four nested
   binary_find_atom look-ups, with the linear scan they must agree with. *)
From Coq Require Import List Ascii ZArith Bool Arith Lia.
From PV Require Import Base.Sx Base.Text Spec.Hier.
Import ListNotations.
Local Open Scope nat_scope.

Section B.
Variable f : nat -> comparison.   (* ordering of element i relative to the target: Lt = element is smaller *)
Fixpoint bs_loop (fuel base size : nat) : nat :=
  match fuel with
  | O => base
  | S fu => if size <=? 1 then base else
            let half := size / 2 in let mid := base + half in
            bs_loop fu (match f mid with Gt => base | _ => mid end) (size - half)
  end.
Definition bsearch (n : nat) : option nat :=
  if n =? 0 then None else let b := bs_loop n 0 n in match f b with Eq => Some b | _ => None end.

Variable n k : nat.
Hypothesis Hk : k <= n.
Hypothesis Hlo : forall i, i < k -> f i <> Gt.
Hypothesis Hhi : forall i, k <= i -> i < n -> f i = Gt.
Hypothesis Heq : forall i j, i <= j -> j < k -> f i = Eq -> f j = Eq.

Lemma loop_inv fuel : forall base size, size <= fuel -> 1 <= size -> base + size <= n ->
  base <= Nat.max (k - 1) 0 -> k <= base + size ->
  let b := bs_loop fuel base size in (k = 0 /\ b = 0) \/ (1 <= k /\ b = k - 1).
Proof.
  induction fuel as [|fu IH]; intros base size Hf Hs Hn Hb Hks; [lia|].
  cbn [bs_loop]. destruct (size <=? 1) eqn:E.
  - apply Nat.leb_le in E. assert (size = 1) by lia. subst size. lia.
  - apply Nat.leb_gt in E.
    assert (Hh : 1 <= size / 2) by (apply Nat.div_le_lower_bound; lia).
    assert (Hh2 : size / 2 + size / 2 <= size).
    { pose proof (Nat.div_mod_eq size 2). lia. }
    assert (Hh3 : size / 2 < size) by (apply Nat.div_lt; lia).
    destruct (f (base + size / 2)) eqn:Ef.
    + assert (base + size / 2 < k).
      { destruct (lt_dec (base + size / 2) k); auto. exfalso.
        rewrite Hhi in Ef by lia. discriminate. }
      apply IH; lia.
    + assert (base + size / 2 < k).
      { destruct (lt_dec (base + size / 2) k); auto. exfalso.
        rewrite Hhi in Ef by lia. discriminate. }
      apply IH; lia.
    + assert (k <= base + size / 2).
      { destruct (le_dec k (base + size / 2)); auto. exfalso. apply (Hlo (base + size / 2)); [lia|exact Ef]. }
      apply IH; lia.
Qed.

Theorem bsearch_correct : 1 <= n ->
  match bsearch n with
  | Some b => f b = Eq /\ b = k - 1 /\ 1 <= k
  | None => forall i, i < n -> f i <> Eq
  end.
Proof.
  intros Hn. unfold bsearch. destruct (n =? 0) eqn:E; [apply Nat.eqb_eq in E; lia|].
  pose proof (loop_inv n 0 n (le_n _) Hn (le_n _) ltac:(lia) ltac:(lia)) as H. simpl in H.
  destruct H as [[H0 Hb]|[H1 Hb]]; rewrite Hb.
  - subst k. destruct (f 0) eqn:E0; try (intros i Hi; rewrite Hhi by lia; discriminate).
    rewrite Hhi in E0 by lia. discriminate.
  - destruct (f (k - 1)) eqn:E1; [repeat split; auto| |].
    + intros i Hi He. destruct (lt_dec i k).
      * assert (f (k - 1) = Eq) by (apply (Heq i); auto; lia). congruence.
      * rewrite Hhi in He by lia. discriminate.
    + exfalso. apply (Hlo (k - 1)); [lia|exact E1].
Qed.
End B.

Definition bsearch_by {A} (cmp : A -> comparison) (l : list A) : option nat :=
  bsearch (fun i => match nth_error l i with Some a => cmp a | None => Gt end) (length l).

(* comparator of Model/Chain::binary_find_atom on the serial range [lo, hi] of a child (after the fix:
   a child whose range lies above the target is Greater) *)
Definition range_cmp (lo hi n : Z) : comparison :=
  if (Z.leb lo n && Z.leb n hi)%bool then Eq else if Z.ltb n lo then Gt else Lt.
(* the comparator as it was before the fix *)
Definition range_cmp_inverted (lo hi n : Z) : comparison :=
  if (Z.leb lo n && Z.leb n hi)%bool then Eq else if Z.ltb n lo then Lt else Gt.

Definition last_error {A} (l : list A) : option A := hd_error (rev l).
Definition span (l : list atom) : option (Z * Z) :=
  match hd_error l, last_error l with
  | Some a, Some b => Some (a_serial a, a_serial b)
  | _, _ => None
  end.
Definition span_cmp (rc : Z -> Z -> Z -> comparison) (n : Z) (l : list atom) : comparison :=
  match span l with Some (lo, hi) => rc lo hi n | None => Gt end.

Definition otext_eqb (a b : option text) : bool :=
  match a, b with None, None => true | Some x, Some y => text_eqb x y | _, _ => false end.

Definition Conformer_bfind (c : conformer) (n : Z) : option atom :=
  match bsearch_by (fun a => Z.compare (a_serial a) n) (c_atoms c) with
  | Some i => nth_error (c_atoms c) i
  | None => None
  end.
Fixpoint Residue_bfind_go (cs : list conformer) (n : Z) (alt : option text) : option (atom * conformer) :=
  match cs with
  | [] => None
  | c :: r =>
      let next := Residue_bfind_go r n alt in
      if otext_eqb (c_alt c) alt then
        match span (c_atoms c) with
        | Some (lo, hi) =>
            if (Z.leb lo n && Z.leb n hi)%bool then
              match Conformer_bfind c n with Some a => Some (a, c) | None => next end
            else next
        | None => next
        end
      else next
  end.
Definition Residue_bfind (r : residue) n alt := Residue_bfind_go (r_confs r) n alt.

Section Cmp.
Variable rc : Z -> Z -> Z -> comparison.
Definition Chain_bfind (c : chain) (n : Z) (alt : option text) : option (atom * conformer * residue) :=
  match bsearch_by (fun r => span_cmp rc n (r_atoms r)) (ch_residues c) with
  | Some i => match nth_error (ch_residues c) i with
              | Some r => option_map (fun ac => (ac, r)) (Residue_bfind r n alt)
              | None => None end
  | None => None
  end.
Definition Model_bfind (m : model) (n : Z) (alt : option text) : option (atom * conformer * residue * chain) :=
  match bsearch_by (fun c => span_cmp rc n (ch_atoms c)) (m_chains m) with
  | Some i => match nth_error (m_chains m) i with
              | Some c => option_map (fun acr => (acr, c)) (Chain_bfind c n alt)
              | None => None end
  | None => None
  end.
Definition PDB_bfind (p : pdb) (n : Z) (alt : option text) :=
  match p with [] => None | m :: _ => option_map (fun x => (x, m)) (Model_bfind m n alt) end.
End Cmp.

(* ----- the linear scan: first atom in traversal order of the first model with this serial under this alternate location ----- *)
Definition lin_conf (c : conformer) (n : Z) (alt : option text) : option (atom * conformer) :=
  if otext_eqb (c_alt c) alt
  then option_map (fun a => (a, c)) (find (fun a => Z.eqb (a_serial a) n) (c_atoms c))
  else None.
Fixpoint first_some {A B} (f : A -> option B) (l : list A) : option B :=
  match l with [] => None | a :: r => match f a with Some b => Some b | None => first_some f r end end.
Definition lin_res (r : residue) n alt := option_map (fun ac => (ac, r)) (first_some (fun c => lin_conf c n alt) (r_confs r)).
Definition lin_chain (c : chain) n alt := option_map (fun x => (x, c)) (first_some (fun r => lin_res r n alt) (ch_residues c)).
Definition lin_model (m : model) n alt := option_map (fun x => (x, m)) (first_some (fun c => lin_chain c n alt) (m_chains m)).
Definition lin_pdb (p : pdb) n alt := match p with [] => None | m :: _ => lin_model m n alt end.

(* preconditions of the look-up: serials strictly increase in traversal order, no container is empty *)
Fixpoint increasing (l : list Z) : bool :=
  match l with
  | a :: ((b :: _) as r) => (Z.ltb a b && increasing r)%bool
  | _ => true
  end.
Definition nonempty_model (m : model) : bool :=
  (negb (is_nil (m_chains m)) &&
   forallb (fun c => negb (is_nil (ch_residues c)) &&
     forallb (fun r => negb (is_nil (r_confs r)) && forallb (fun cf => negb (is_nil (c_atoms cf))) (r_confs r)) (ch_residues c))
   (m_chains m))%bool.
