(* C14 model: distances, wrapped distances, bounding box, chains in contact, and the brute-force scans the spatial
   trees must agree with.  Positions are exact rationals (q_of_fval of the stored doubles). *)
From Coq Require Import List Ascii String QArith Qabs ZArith Bool.
From PV Require Import Base.Sx Base.Text Base.Float Spec.Hier Model.Transform Model.TransformRun Gen.Elements.
Import ListNotations.
Local Open Scope Q_scope.

Definition pos (a : atom) : pt := (q_of_fval (a_x a), q_of_fval (a_y a), q_of_fval (a_z a)).
Definition adist2 (a b : atom) : Q := dist2 (pos a) (pos b).

(* ----- distance_wrapping, one axis: the other coordinate is moved by one cell edge when it is more than half an edge away ----- *)
Definition wrap1 (s o edge : Q) : Q :=
  if Qlt_le_dec (edge / 2) (Qabs (s - o)) then (if Qlt_le_dec o s then o + edge else o - edge) else o.
Definition wrap_dist2 (a b : pt) (cell : pt) : Q :=
  let '(ax, ay, az) := a in let '(bx, by_, bz) := b in let '(ca, cb, cc) := cell in
  let x := wrap1 ax bx ca in let y := wrap1 ay by_ cb in let z := wrap1 az bz cc in
  (x - ax) * (x - ax) + (y - ay) * (y - ay) + (z - az) * (z - az).
(* the 27 neighbouring images *)
Definition image (b : pt) (cell : pt) (k : Z * Z * Z) : pt :=
  let '(bx, by_, bz) := b in let '(ca, cb, cc) := cell in let '(i, j, l) := k in
  (bx + inject_Z i * ca, by_ + inject_Z j * cb, bz + inject_Z l * cc).
Definition shifts : list (Z * Z * Z) :=
  flat_map (fun i => flat_map (fun j => map (fun l => (i, j, l)) [-1; 0; 1]%Z) [-1; 0; 1]%Z) [-1; 0; 1]%Z.

(* ----- bounding box ----- *)
Definition qmin_list (l : list Q) (d : Q) : Q := fold_left (fun m x => if Qlt_le_dec x m then x else m) l d.
Definition qmax_list (l : list Q) (d : Q) : Q := fold_left (fun m x => if Qlt_le_dec m x then x else m) l d.

(* ----- chains in contact ----- *)
Definition close (d2 : Q) (c1 c2 : chain) : bool :=
  existsb (fun a => existsb (fun b => if Qlt_le_dec (adist2 a b) d2 then true else false) (ch_atoms c2)) (ch_atoms c1).
Definition in_contact (p : pdb) (d2 : Q) (ida idb : text) : bool :=
  (negb (text_eqb ida idb) &&
   existsb (fun c1 => text_eqb (ch_id c1) ida && existsb (fun c2 => text_eqb (ch_id c2) idb && close d2 c1 c2) (p_chains p)) (p_chains p))%bool.

(* ----- radii ----- *)
Definition radii (z : Z) : option (option (Z * Z) * (Z * Z)) := nth_error ELEMENT_RADII (Z.to_nat (z - 1)).
(* the square a squared distance is compared with for a cut-off: nothing is closer than a cut-off that is not positive *)
Definition cutoff_d2 (cutoff : Q) : Q := if Qle_bool cutoff 0 then 0 else cutoff * cutoff.
Definition adist2_to (a : atom) (c : pt) : Q := dist2 (pos a) c.
